"""C07 -- foldfilter splits within the width and reassembles losslessly."""
import itertools
import os
import sys

sys.path.insert(0, os.path.join(os.path.dirname(os.path.abspath(__file__)), "..", "tools"))
from checklib import *  # noqa

CHILDREN = os.path.join(VERIF, "harness", "children")

# test alphabet: 1-4 byte code points and two delimiters (1 byte, 2 bytes)
SYM = {"a": "a", "e": "é", "E": "€", "G": "\U0001F600", "_": " ", ".": "·"}


def u8(s):
    return s.encode("utf-8")


def hx(b):
    return b.hex() if b else "-"


def unhx(s):
    return b"" if s == "-" else bytes.fromhex(s)


def dl(delims):
    return ",".join(str(d) for d in delims) if delims else "-"


def wcase(width, keep, delims, line):
    return "W %d %d %s %s" % (width, 1 if keep else 0, dl(delims), hx(line))


def parse_w(out):
    t = out.split()
    if not t or t[0] != "OK":
        return None
    n = int(t[1])
    ps = [unhx(x) for x in t[2::2]]
    ds = [unhx(x) for x in t[3::2]]
    if len(ps) != n or len(ds) != n:
        return None
    return ps, ds


def cps(b):
    """code points of b, or None when b is not well-formed UTF-8 (Python's strict decoder)"""
    try:
        return [ord(ch) for ch in b.decode("utf-8", "strict")]
    except UnicodeDecodeError:
        return None


def oracle(line, width, keep, delims, ps, ds):
    """Direct statement of C07 on one wrap_lines result.  Returns list of (kind, text)."""
    bad = []
    if len(ps) != len(ds) or len(ps) < 1:
        bad.append(("count", "%d pieces, %d delimiter entries" % (len(ps), len(ds))))
        return bad
    if b"".join(p + d for p, d in zip(ps, ds)) != line:
        bad.append(("reassembly", "pieces+withheld runs concatenate to %r, line is %r" % (b"".join(p + d for p, d in zip(ps, ds)), line)))
    for i, p in enumerate(ps):
        c = cps(p)
        if c is None:
            bad.append(("split-code-point", "piece %d = %r is not valid UTF-8" % (i, p)))
        elif len(p) > width and len(c) != 1:
            bad.append(("width", "piece %d = %r has %d bytes (%d code points) > width %d" % (i, p, len(p), len(c), width)))
    for i, d in enumerate(ds):
        c = cps(d)
        if keep and d:
            bad.append(("withheld-in-keep-mode", "delimiter entry %d = %r although delimiters are kept" % (i, d)))
        if c is None or any(x not in delims for x in c):
            bad.append(("withheld-not-delimiters", "withheld run %d = %r is not made of delimiters %r" % (i, d, delims)))
    return bad


def parse_bracket(g):
    """[p1]d1[p2]d2... (answers of the bracketing child re-joined) -> (pieces, withheld runs) or None"""
    ps, ds = [], []
    rest = g
    while rest:
        if not rest.startswith(b"[") or b"]" not in rest:
            return None
        e = rest.index(b"]")
        ps.append(rest[1:e])
        rest = rest[e + 1:]
        nx = rest.index(b"[") if b"[" in rest else len(rest)
        ds.append(rest[:nx])
        rest = rest[nx:]
    return ps, ds


def gen_exhaustive(c, maxlen):
    syms = [u8(SYM[k]) for k in "aeEG_."]
    lines = [b""]
    for n in range(1, maxlen + 1):
        for t in itertools.product(syms, repeat=n):
            lines.append(b"".join(t))
    return lines


def rand_line(rng, delims, n):
    pool = [0x61, 0x62, 0x7A, 0x0D, 0x41, 0xE9, 0x3A9, 0x7FF, 0x800, 0x20AC, 0xFFFD, 0xD7FF, 0xE000, 0x10000, 0x1F600, 0x10FFFF]
    # supplementary-plane characters whose low 16 bits equal a delimiter (they are NOT delimiters)
    alias = [p * 0x10000 + d for d in delims for p in (1, 2, 16) if d <= 0xFFFF and p * 0x10000 + d <= 0x10FFFF]
    out = []
    while len(out) < n:
        r = rng.random()
        if alias and r < 0.12:
            out.append(rng.choice(alias))
        elif delims and r < 0.40:
            run = rng.choice((1, 1, 2, 3, 5))
            out += [rng.choice(delims) for _ in range(run)]
        else:
            out.append(rng.choice(pool))
    return "".join(chr(x) for x in out[:n]).encode("utf-8")


def gen_random(c, count):
    rng = c.rng
    cases = []
    delim_sets = [[58, 44, 32, 45, 46, 47], [], [32], [0xB7], [0x3001, 32], [0x1F600, 45, 0xE9], [32, 0xB7, 0x2014]]
    for i in range(count):
        delims = rng.choice(delim_sets)
        n = rng.choice((0, 1, 2, 3, 5, 8, 13, 21, 40, 90, 200))
        line = rand_line(rng, delims, n)
        r = rng.random()
        if r < 0.25:
            width = rng.choice((1, 2, 3, 4))
        elif r < 0.5 and len(line) > 0:
            width = max(1, len(line) + rng.choice((-2, -1, 0, 1)))      # shorter/equal/longer than the width
        else:
            width = rng.choice((5, 6, 7, 8, 10, 16, 40, 80))
        cases.append((width, rng.random() < 0.5, delims, line))
    return cases


def gen_malformed(c, count):
    rng = c.rng
    cases = []
    for i in range(count):
        line = bytearray(rand_line(rng, [32], rng.choice((1, 2, 4, 8))))
        k = rng.randrange(len(line))
        op = rng.randrange(3)
        if op == 0:
            line[k] = rng.choice((0x80, 0xBF, 0xC0, 0xC1, 0xF5, 0xFF, 0xED, 0xF4, 0xE0, 0xF0))
        elif op == 1:
            del line[k]
        else:
            line.insert(k, rng.choice((0x80, 0xA0, 0xE2, 0xF0)))
        cases.append((rng.choice((1, 2, 3, 5, 80)), rng.random() < 0.5, [32], bytes(line)))
    return cases


def tool_inputs(c, count):
    rng = c.rng
    ins = [b"", b"\n", b"\n\n", b"abc", b"abc\n", b"a b c d e f g h\n\nxyz\n", u8("éé\n"), u8("a·b\n"),
           b"a\rb\n", b"ab\r\n", b"ab \r\ncd\n", b"a\r\n\r\nb", b"x " * 50 + b"\n"]
    for i in range(count):
        nl = rng.choice((1, 2, 3, 6))
        doc = b""
        for j in range(nl):
            doc += rand_line(rng, [32, 45], rng.choice((0, 1, 3, 9, 30))).replace(b"[", b"(").replace(b"]", b")") + b"\n"
        if rng.random() < 0.2:
            doc = doc[:-1]
        ins.append(doc)
    return ins



def coqchk_except_sweeps(c):
    """thorough tier: coqchk over the closure of the property file, except Fold/Utf8Grammar.v whose
    exhaustive vm_compute sweeps (1.1 million byte sequences) coqchk would re-evaluate without the VM
    (> 15 min); that file is checked by coqc's kernel only, which the evidence states."""
    mod = "PP.Props.Properties_%s" % c.prop
    with Lock("coq"):
        rc, out = run(["coqchk", "-silent", "-o", "-Q", "theories", "PP", "-admit", "PP.Fold.Utf8Grammar", mod], cwd=COQ, timeout=1500)
    text = out.decode("utf-8", "replace")
    ok = rc == 0 and "type-in-type: <none>" in text and "unsafe (co)fixpoints: <none>" in text
    c.cov["coqchk"] = ("ok" if ok else "FAILED") + " (Utf8Grammar admitted): " + " ".join(text.split())[-300:]
    c.cov["trusted_base"].append("coqchk -o over %s with -admit PP.Fold.Utf8Grammar (the Table 3-7 sweeps are checked by coqc + vm_compute only): %s" % (mod, "ok" if ok else "FAILED"))
    if not ok:
        c.broken.append("coqchk failed on %s: %s" % (mod, text[-400:]))
    return ok


def main(argv):
    c = Check("C07", argv)
    ok, blog = build_repo(["hx_wrap", "foldfilter"])
    if not ok:
        c.broken.append("build of the repo working tree failed: " + blog[-800:])
        return c.finish(rule="build failed")
    c.proofs()
    if not (c.tier == "quick"):
        coqchk_except_sweeps(c)
    drv, dlog = build_driver("C07")
    impl = hx_bin("hx_wrap")
    tool = repo_bin("foldfilter")
    quick = c.tier == "quick"

    # ---------------- cases for wrap_lines
    cases = []
    ex_lines = gen_exhaustive(c, 5 if quick else 6)
    for delims in ([32, 0xB7], [0xB7, 32]):
        for width in range(1, 7):
            for keep in (True, False):
                for line in ex_lines:
                    cases.append((width, keep, delims, line))
    n_ex = len(cases)
    cases += gen_random(c, 4000 if quick else 40000)
    # defaults of the tool on ASCII text
    for i in range(200 if quick else 2000):
        cases.append((80, True, [58, 44, 32, 45, 46, 47], rand_line(c.rng, [58, 44, 32, 45, 46, 47], c.rng.choice((79, 80, 81, 160, 200, 400)))))
    # short cases with supplementary characters whose low 16 bits equal a delimiter (U+1002C ~ ',', U+10020 ~ ' ')
    for line in ("a\U0001002cb", "ab\U00010020cd", "\U0001002c", "x \U00020020,\U0010002c y"):
        for width in (1, 2, 5):
            for keep in (True, False):
                cases.insert(n_ex, (width, keep, [44, 32], line.encode("utf-8")))
    n_valid = len(cases)
    cases += gen_malformed(c, 1500 if quick else 15000)
    lines = ["DEFAULTS"] + [wcase(*k) for k in cases]
    for i, k in enumerate(cases):
        width, keep, delims, line = k
        if i < n_ex:
            b = "exhaustive/w=%d/%s" % (width, "keep" if keep else "skip")
        elif i < n_valid:
            rel = "short" if len(line) < width else ("equal" if len(line) == width else "long")
            b = "random/%s/%s/%s" % (rel, "keep" if keep else "skip", "multibyte-delims" if any(d > 127 for d in delims) else ("no-delims" if not delims else "ascii-delims"))
        else:
            b = "malformed-utf8"
        c.count(k[:2] + (tuple(k[2]), k[3]), nontrivial=len(line) > 0, bucket=b)
    c.sample({"case": lines[1 + n_ex // 2]})
    c.sample({"case": lines[1 + n_ex + 7]})
    c.sample({"case": lines[-1]})

    # ---------------- the implementation on all cases (time and memory limited)
    impl_ok = True
    rc, out, err = run_lines_limited(impl, lines, timeout=300, mem_mb=2048)
    if len(out) != len(lines):
        impl_ok = False
        cul = find_culprit(impl, lines)
        if cul is not None:
            bad, st1, e1 = cul
            width, keep, delims, line = cases[bad - 1]
            c.violation("no-progress: wrap_lines(%r, width=%d, keep=%s, delims=%r) does not return (%s within 5 s / 2 GiB) %s" % (line, width, keep, delims, st1, e1),
                        {"op": "wrap_lines", "kind": "hang-or-crash", "line_hex": hx(line), "line": line.decode("utf-8", "replace"), "width": width, "keep": keep,
                         "delims": delims, "status": st1, "how": "harness hx_wrap: " + lines[bad]})
        else:
            c.broken.append("harness hx_wrap died: rc=%s %s" % (rc, err[-300:]))

    # ---------------- correspondence: extracted model vs implementation
    if drv is None:
        c.broken.append("extraction/driver build failed: " + dlog[-600:])
    elif impl_ok:
        rc1, mout_w, e1 = run_lines(drv, lines)
        if len(mout_w) != len(lines):
            c.broken.append("model driver died: " + e1[-300:])
        else:
            dis = [(l, a, b) for l, a, b in zip(lines, mout_w, out) if a != b]
            c.cov["traces_validated_against_impl"] += len(lines)
            if dis:
                l, a, b = min(dis, key=lambda d: len(d[0]))
                c.broken.append("correspondence wrap_lines model vs preprocess/foldfilter_main.cc: %d disagreement(s); smallest: case %r model=%r impl=%r" % (len(dis), l[:200], a[:200], b[:200]))
    else:
        c.broken.append("correspondence wrap_lines model vs preprocess/foldfilter_main.cc: implementation did not answer all cases")

    # ---------------- direct property oracle on the implementation's pieces
    if impl_ok:
        for k, o in zip(cases[:n_valid], out[1:1 + n_valid]):
            width, keep, delims, line = k
            r = parse_w(o)
            how = "harness hx_wrap: %s   |  printf '%%s\\n' <line> | foldfilter -w %d %s-d <delims> child_bracket.py" % (wcase(*k), width, "" if keep else "-s ")
            if r is None:
                c.violation("valid-line-rejected: wrap_lines(%r, w=%d) answered %s" % (line, width, o),
                            {"op": "wrap_lines", "line_hex": hx(line), "width": width, "keep": keep, "delims": delims, "impl": o, "how": how})
                continue
            # which branches of wrap_lines (= case splits of the proofs) this case went through
            ps_, ds_ = r
            feats = ["pieces=%s" % (len(ps_) if len(ps_) < 3 else "3+")]
            if any(len(p) > width for p in ps_):
                feats.append("single-code-point-wider-than-width")
            if any(d for d in ds_):
                feats.append("withheld-run")
            if keep and any(p and cps(p) and cps(p)[-1] in delims for p in ps_[:-1]):
                feats.append("kept-delimiters-at-piece-end(peek-extension)")
            for a, b in zip(ps_, ps_[1:]):
                cb = cps(b)
                if a and cb and len(a) < width and len(chr(cb[0]).encode("utf-8")) > 1 and len(a) + len(chr(cb[0]).encode("utf-8")) > width:
                    feats.append("cut-in-front-of-crossing-multibyte")
                    break
            if any(a and cps(a) and cps(a)[-1] not in delims and cps(b) and cps(b)[0] not in delims for a, b in zip(ps_, ps_[1:])):
                feats.append("hard-cut-inside-word")
            for f in feats:
                key = "branch/" + f
                c.cov["distribution"][key] = c.cov["distribution"].get(key, 0) + 1
            for kind, text in oracle(line, width, keep, delims, r[0], r[1]):
                c.violation("%s: wrap_lines(%r, width=%d, keep=%s, delims=%r): %s" % (kind, line, width, keep, delims, text),
                            {"op": "wrap_lines", "kind": kind, "line_hex": hx(line), "line": line.decode("utf-8"), "width": width, "keep": keep,
                             "delims": delims, "pieces_hex": [hx(p) for p in r[0]], "withheld_hex": [hx(d) for d in r[1]], "how": how})

    # ---------------- thorough: the same cases through the ASan+UBSan build of the harness
    if not quick and impl_ok:
        step = max(1, len(lines) // 150000)
        asan_lines(c, "hx_wrap", lines[::step], what="(wrap_lines)")

    # ---------------- the theorems' own boolean predicate (extracted check_wrap) on the implementation's pieces
    if impl_ok and drv is not None:
        idx = [i for i in range(n_valid) if out[1 + i].startswith("OK ")]
        step = max(1, len(idx) // (40000 if quick else 400000))
        idx = idx[::step]
        clines = ["C %d %d %s %s %s" % (cases[i][0], 1 if cases[i][1] else 0, dl(cases[i][2]), hx(cases[i][3]), out[1 + i][3:]) for i in idx]
        rc2, cout, e2 = run_lines(drv, clines)
        if len(cout) != len(clines):
            c.broken.append("model driver died on check_wrap cases: " + e2[-300:])
        else:
            c.cov["traces_validated_against_impl"] += len(clines)
            for i, o in zip(idx, cout):
                if o != "1":
                    width, keep, delims, line = cases[i]
                    c.violation("check_wrap: the extracted predicate of the C07 theorems rejects the pieces of wrap_lines(%r, width=%d, keep=%s, delims=%r): %s" % (line, width, keep, delims, out[1 + i]),
                                {"op": "wrap_lines", "kind": "check_wrap", "line_hex": hx(line), "width": width, "keep": keep, "delims": delims, "impl": out[1 + i]})
                    break

    # ---------------- tool level: bin/foldfilter with scripted children
    tcases = []
    inputs = tool_inputs(c, 25 if quick else 250)
    optsets = [(80, True, None), (3, True, None), (1, False, None), (4, False, [32, 45]), (2, True, [0xB7, 32]), (7, False, [32])]
    for inp in inputs:
        for (width, keep, delims) in (optsets if not quick else c.rng.sample(optsets, 3)):
            for child in (("id", "bracket", "upper") if not quick else c.rng.sample(("id", "id", "bracket", "upper"), 2)):
                tcases.append((width, keep, delims, child, inp))
    tlines = []
    for (width, keep, delims, child, inp) in tcases:
        d = delims if delims is not None else [58, 44, 32, 45, 46, 47]
        tlines.append("T %d %d %s %s %s" % (width, 1 if keep else 0, dl(d), child, hx(inp)))
    mout = None
    if drv is not None:
        rc, mout, err = run_lines(drv, tlines)
        if len(mout) != len(tlines):
            c.broken.append("model driver died on tool cases: %s" % err[-300:])
            mout = None
    tdis = 0
    hangs = 0
    fails = 0
    for i, (width, keep, delims, child, inp) in enumerate(tcases):
        argv = [tool, "-w", str(width)]
        if not keep:
            argv.append("-s")
        if delims is not None:
            argv += ["-d", "".join(chr(x) for x in delims)]
        argv.append(os.path.join(CHILDREN, "child_%s.py" % child))
        if hangs >= 3 or fails >= 12:
            break                      # enough evidence; do not burn minutes on a tool that is clearly broken
        st, so, se = run_limited(argv, stdin=inp, timeout=10, mem_mb=2048)
        if st != 0:
            fails += 1
        c.count(("tool", width, keep, tuple(delims or ()), child, inp), nontrivial=len(inp) > 0, bucket="tool/" + child)
        rep = {"op": "tool", "argv": argv[1:-1] + ["child_%s.py" % child], "stdin_hex": hx(inp), "stdin": inp.decode("utf-8", "replace"),
               "status": st, "stdout_hex": hx(so), "stderr": se.decode("utf-8", "replace")[-300:]}
        if st == "timeout":
            hangs += 1
            c.violation("hang: foldfilter did not finish within 10 s", rep)
            continue
        if st != 0:
            c.violation("tool-failed: foldfilter exit status %s on valid UTF-8 input with a line-preserving child" % st, rep)
            continue
        want_lines = inp.split(b"\n")
        if want_lines and want_lines[-1] == b"":
            want_lines.pop()
        got_lines = so.split(b"\n")
        if so.endswith(b"\n") or so == b"":
            got_lines.pop()
        if len(got_lines) != len(want_lines):
            c.violation("line-count: %d input lines, %d output lines" % (len(want_lines), len(got_lines)), rep)
            continue
        if child == "id" and got_lines != want_lines:
            j = [k for k in range(len(want_lines)) if want_lines[k] != got_lines[k]][0]
            c.violation("identity-child: line %d %r came back as %r" % (j, want_lines[j], got_lines[j]), rep)
        if child == "upper":
            up = [bytes(x - 32 if 97 <= x <= 122 else x for x in l) for l in want_lines]
            if got_lines != up:
                c.violation("upper-child: output is not the upper-cased input", rep)
        if child == "bracket":
            d = delims if delims is not None else [58, 44, 32, 45, 46, 47]
            for l, g in zip(want_lines, got_lines):
                # g = [p1]d1[p2]d2...   (generated lines contain no brackets)
                if b"[" in l or b"]" in l:
                    continue
                ps, ds = [], []
                ok2 = True
                rest = g
                while rest:
                    if not rest.startswith(b"[") or b"]" not in rest:
                        ok2 = False
                        break
                    e = rest.index(b"]")
                    ps.append(rest[1:e])
                    rest = rest[e + 1:]
                    nx = rest.index(b"[") if b"[" in rest else len(rest)
                    ds.append(rest[:nx])
                    rest = rest[nx:]
                if not ok2:
                    c.violation("bracket-child: output line %r is not of the form [piece]run..." % g, rep)
                    continue
                for kind, text in oracle(l, width, keep, d, ps, ds):
                    c.violation("%s (tool level, pieces seen by the bracketing child): line %r: %s" % (kind, l, text), dict(rep, kind=kind))
        if mout is not None:
            want = "OK " + hx(so)
            if mout[i] != want:
                tdis += 1
                if tdis == 1:
                    c.broken.append("correspondence tool model vs bin/foldfilter: case %r: model %s, tool %s" % (tlines[i][:200], mout[i][:200], want[:200]))
    c.cov["traces_validated_against_impl"] += len(tcases)
    c.sample({"tool_case": tlines[3][:200]})

    # ---------------- the stream-level model (one stream to the child, one back) vs the tool, incl. children
    #     that break the line structure: one that swallows its 2nd line (the tool must fail) and one that adds
    #     a line after the end of its input (foldfilter does not notice surplus output after the last line)
    if drv is not None and hangs < 3 and fails < 12:
        scases = [(w, k, d, ch, inp) for (w, k, d, ch, inp) in tcases[:60]]
        for inp in (b"ab cd ef\nxyz\n", b"one\n", b"a b\n\nc d e\n", b""):
            for ch in ("drop2", "extra", "number"):
                scases.append((3, False, [32], ch, inp))
                scases.append((80, True, None, ch, inp))
        sl = ["TS %d %d %s %s %s" % (w, 1 if k else 0, dl(d if d is not None else [58, 44, 32, 45, 46, 47]), ch, hx(inp)) for (w, k, d, ch, inp) in scases]
        rc, sm, err = run_lines(drv, sl)
        if len(sm) != len(sl):
            c.broken.append("model driver died on stream cases: " + err[-200:])
        else:
            for (w, k, d, ch, inp), m, l in zip(scases, sm, sl):
                argv = [tool, "-w", str(w)] + ([] if k else ["-s"]) + (["-d", "".join(chr(x) for x in d)] if d is not None else []) + [os.path.join(CHILDREN, "child_%s.py" % ch)]
                st, so, se = run_limited(argv, stdin=inp, timeout=10, mem_mb=2048)
                c.count(("stream", w, k, ch, inp), nontrivial=len(inp) > 0, bucket="tool-stream/" + ch)
                agree = (m == "OK " + hx(so) and st == 0) or (m == "SHORT" and st not in (0, "timeout"))
                if ch == "extra" and st not in (0, "timeout"):
                    agree = True       # a foldfilter that notices surplus child output at the end is stricter, not wrong
                if not agree:
                    c.broken.append("correspondence foldfilter_stream model vs bin/foldfilter: case %r: model %s, tool status %s stdout %s" % (l[:160], m[:120], st, hx(so)[:120]))
                    break
                npieces_lines = len(inp.split(b"\n")) - 1
                if ch == "number" and st == 0 and k:
                    # oracle (keep mode): removing the "<i>:" prefixes in order gives the input; numbers are consecutive
                    import re as _re
                    nums = [int(x) for x in _re.findall(rb"(\d+):", so)]
                    if _re.sub(rb"\d+:", b"", so) != inp or nums != list(range(1, len(nums) + 1)):
                        c.violation("stateful-child: numbering child, output %r for input %r" % (so[:100], inp[:100]), {"op": "tool", "argv": argv[1:], "stdin": inp.decode("utf-8", "replace"), "stdout_hex": hx(so)})
                if ch == "drop2" and st == 0 and m == "SHORT":
                    c.violation("line-structure-broken-unnoticed: child_drop2.py swallowed a line, foldfilter exit 0", {"op": "tool", "argv": argv[1:], "stdin": inp.decode("utf-8", "replace"), "status": st, "stdout_hex": hx(so)})
            c.cov["traces_validated_against_impl"] += len(sl)

    # ---------------- long streams: the feeder->collector queue (util::UnboundedSingleQueue) works in pages of
    #     1023 entries; line counts around multiples of the page size, all at once and with stdin stalling
    #     right after a long line at a page boundary (the collector then catches up with the feeder there)
    def mklines(n):
        ls = []
        for i in range(1, n + 1):
            if i % 1023 == 0:
                ls.append(("long line %d:" % i + "".join(" word%d, more-text." % j for j in range(600))).encode())
            elif i % 7 == 0:
                ls.append(("line %d, with some more text: so that it gets folded - several times. over/and/over \u00e9\u20ac" % i).encode("utf-8"))
            elif i % 11 == 0:
                ls.append(b"")
            else:
                ls.append(b"line %d" % i)
        return ls

    stream_hangs = [hangs + (3 if fails >= 12 else 0)]      # a tool that already hung/crashed repeatedly is not fed 20 more long streams

    def check_stream(tag, ls, st, so, se, how):
        if st == "timeout":
            stream_hangs[0] += 1
        c.count((tag, len(ls)), nontrivial=True, bucket="long-stream/" + tag.split(":")[0])
        rep = {"op": "tool", "lines": len(ls), "status": st, "stdout_lines": so.count(b"\n"), "stderr": se.decode("utf-8", "replace")[-300:], "how": how}
        if st == "timeout":
            c.violation("hang: foldfilter did not finish a stream of %d lines (%s)" % (len(ls), tag), rep)
        elif st != 0:
            c.violation("tool-failed: foldfilter exit status %s on a stream of %d valid lines (%s), %d lines came out" % (st, len(ls), tag, so.count(b"\n")), rep)
        else:
            ol = so.split(b"\n")
            if so.endswith(b"\n") or so == b"":
                ol.pop()
            if len(ol) != len(ls):
                c.violation("line-count: %d input lines, %d output lines (%s)" % (len(ls), len(ol), tag), rep)
            elif ol != ls:
                j = [k for k in range(len(ls)) if ls[k] != ol[k]][0]
                c.violation("identity-child: line %d of %d (%s) %r came back as %r" % (j + 1, len(ls), tag, ls[j][:60], ol[j][:60]), dict(rep, line_index=j + 1))

    idc = os.path.join(CHILDREN, "child_id.py")
    for n in ((1022, 1023, 1024, 2046, 2047, 3500) if quick else (1021, 1022, 1023, 1024, 1025, 2045, 2046, 2047, 2048, 3069, 3500, 5200)):
        if stream_hangs[0] >= 3:
            break
        ls = mklines(n)
        mode = ["-s"] if n % 2 else []
        st, so, se = run_limited([tool, "-w", "40"] + mode + [idc], stdin=b"".join(l + b"\n" for l in ls), timeout=60)
        check_stream("at-once", ls, st, so, se, "%d lines (see mklines in checks/C07.py) | foldfilter -w 40 %s child_id.py" % (n, " ".join(mode)))
    # one very long line (bigger than every stream buffer and pipe; thousands of pieces) between short ones
    bigs = " ".join("w%d" % (i % 1000) + ("\u00e9" if i % 5 == 0 else "") for i in range(60000))
    bigl = bigs.encode("utf-8")
    ls = mklines(30) + [bigl, b"", bigs[: len(bigs) // 2].encode("utf-8")] + mklines(30)
    for mode in ([], ["-s"]):
        if stream_hangs[0] >= 3:
            break
        st, so, se = run_limited([tool, "-w", "40"] + mode + [idc], stdin=b"".join(l + b"\n" for l in ls), timeout=120)
        check_stream("big-line" + (mode and ":-s" or ""), ls, st, so, se, "60 short lines around two lines of ~300 kB / 150 kB | foldfilter -w 40 %s child_id.py" % " ".join(mode))
    # a line longer than the reader's 1 MiB buffer: on stdin (pipe and regular file), and as a child answer
    # (width larger than the line, so the whole line is one piece and comes back as one 1.3 MB answer)
    hugel = (" ".join("tok%d" % (i % 977) for i in range(200000))).encode()          # ~1.3 MB
    ls = [b"short", hugel, b"", b"after", hugel[:1200000], b"end"]
    hin = b"".join(l + b"\n" for l in ls)
    for tag, wopt, child in (("huge-line:pipe", "40", idc), ("huge-line:answer", "3000000", idc), ("huge-line:answer-cat", "3000000", "cat")):
        if stream_hangs[0] >= 3:
            break
        st, so, se = run_limited([tool, "-w", wopt, child], stdin=hin, timeout=120, mem_mb=4096)
        check_stream(tag, ls, st, so, se, "short / 1.3 MB line / empty / after / 1.2 MB line / end through a pipe | foldfilter -w %s %s" % (wopt, os.path.basename(child)))
    if stream_hangs[0] < 3:
        import tempfile
        with tempfile.NamedTemporaryFile(dir=os.environ.get("VERIF_BUILD", "/var/tmp")) as tf:
            tf.write(hin)
            tf.flush()
            with open(tf.name, "rb") as fh:
                try:
                    pr = subprocess.run([tool, "-w", "40", "cat"], stdin=fh, stdout=subprocess.PIPE, stderr=subprocess.PIPE, timeout=120)
                    st, so, se = pr.returncode, pr.stdout, pr.stderr
                except subprocess.TimeoutExpired as e:
                    st, so, se = "timeout", e.stdout or b"", e.stderr or b""
        check_stream("huge-line:file", ls, st, so, se, "the same with stdin redirected from a regular file | foldfilter -w 40 cat")
    for n, cuts in ((2500, (1023, 2046)), (1100, (1022,)), (2100, (1024, 2047))):
        ls = mklines(n)
        enc = [l + b"\n" for l in ls]
        parts, prev = [], 0
        for cpos in cuts:
            parts.append(b"".join(enc[prev:cpos]))
            prev = cpos
        parts.append(b"".join(enc[prev:]))
        for mode, child in (([], "cat"), (["-s"], idc)):
            if stream_hangs[0] >= 3:
                break
            st, so, se = run_staged([tool, "-w", "40"] + mode + [child], parts, pause=1.2, timeout=60)
            check_stream("stalled-stdin:%s%s" % (os.path.basename(child), mode and " -s" or ""), ls, st, so, se,
                         "%d lines, stdin pauses 1.2 s after line(s) %s | foldfilter -w 40 %s %s" % (n, list(cuts), " ".join(mode), os.path.basename(child)))
    c.cov["traces_validated_against_impl"] += 12

    # ---------------- the width option: every decimal number a size_t holds is a width; anything else a usage error
    wstrs = ["1", "7", "007", "80", "2147483647", "2147483648", "3000000000", "4294967295", "4294967296", "4294967297", "1000000000000",
             "9223372036854775807", "9223372036854775808", "18446744073709551615", "18446744073709551616", "99999999999999999999999",
             "-1", "-5", "abc", "5x", "", "+7", " 7", "0x10", "1e3"]
    winp = b"ab cd, ef\n" + u8("\u00e9\u20ac \U0001F600") + b"\n\nlast"
    wl = ["TW %s 1 %s id %s" % (hx(w.encode()), dl([58, 44, 32, 45, 46, 47]), hx(winp)) for w in wstrs]
    wm = None
    if drv is not None:
        rc, wm, err = run_lines(drv, wl)
        if len(wm) != len(wl):
            c.broken.append("model driver died on width option cases: " + err[-200:])
            wm = None
    for i, w in enumerate(wstrs):
        if stream_hangs[0] >= 3:
            break
        st, so, se = run_limited([tool, "-w", w, os.path.join(CHILDREN, "child_id.py")], stdin=winp, timeout=10, mem_mb=2048)
        if st == "timeout":
            stream_hangs[0] += 1
        valid = w.isdigit() and w.isascii() and int(w) < 2 ** 64
        c.count(("width-option", w), nontrivial=True, bucket="width-option/" + ("number" if valid else "not-a-number"))
        rep = {"op": "tool", "argv": ["-w", w, "child_id.py"], "stdin": winp.decode("utf-8"), "status": st, "stdout_hex": hx(so),
               "stderr": se.decode("utf-8", "replace")[-300:], "how": "printf '<stdin>' | foldfilter -w '%s' child_id.py" % w}
        if valid and int(w) >= 1:
            if st != 0 or so != winp + b"\n":
                c.violation("width-option: -w %s is a valid width (>= every line length here) but foldfilter ended with status %s%s" % (
                    w, st, "" if st != 0 else " and changed the text"), rep)
        elif not valid:
            if st == 0 or (isinstance(st, int) and st < 0) or st == "timeout" or st >= 128:
                c.violation("width-option: -w %r is not a number a size_t holds; expected a usage error, got status %s%s" % (
                    w, st, " (width silently replaced)" if st == 0 else ""), rep)
        if wm is not None:
            m = wm[i]
            agree = (m == "USAGE" and st not in (0, "timeout") and isinstance(st, int) and 0 < st < 128) or (m == "OK " + hx(so) and st == 0)
            if not agree:
                c.broken.append("correspondence foldfilter_cli model vs bin/foldfilter -w %r: model %s, tool status %s stdout %s" % (w, m[:80], st, hx(so)[:80]))
    c.cov["traces_validated_against_impl"] += len(wstrs)

    # ---------------- the delimiter option: the code points of a valid UTF-8 string; anything else a usage error
    dstrs = [b" ", b":, -./", b"", u8("\u00b7 "), u8("\u3001\u00e9\U0001F600"), b"\xff", b"\xc3", b"a\x80", b"\xed\xa0\x80", b"\xf4\x90\x80\x80", b" \xc2"]
    dinp = u8("ab cd\u00b7ef\u3001gh, ij\n\U0001F600 x\n")
    dlines = ["TD 33 %d %s bracket %s" % (i % 2, hx(d), hx(dinp)) for i, d in enumerate(dstrs)]
    dm = None
    if drv is not None:
        rc, dm, err = run_lines(drv, dlines)
        if len(dm) != len(dlines):
            c.broken.append("model driver died on delimiter option cases: " + err[-200:])
            dm = None
    for i, d in enumerate(dstrs):
        if stream_hangs[0] >= 3:
            break
        argv = [tool, "-w", "3"] + ([] if i % 2 else ["-s"]) + ["-d", d, os.path.join(CHILDREN, "child_bracket.py")]
        st, so, se = run_limited(argv, stdin=dinp, timeout=10, mem_mb=2048)
        try:
            d.decode("utf-8", "strict")
            valid = True
        except UnicodeDecodeError:
            valid = False
        c.count(("delims-option", d), nontrivial=True, bucket="delims-option/" + ("valid" if valid else "not-utf8"))
        rep = {"op": "tool", "argv": ["-w", "3", "-d", repr(d), "child_bracket.py"], "stdin": dinp.decode("utf-8"), "status": st, "stdout_hex": hx(so),
               "stderr": se.decode("utf-8", "replace")[-300:]}
        if valid and st != 0:
            c.violation("delims-option: -d %r is valid UTF-8 but foldfilter ended with status %s" % (d, st), rep)
        if valid and st == 0:
            # piece level: the pieces/withheld runs the bracketing child shows must obey C07 for exactly the requested list
            want_delims = [ord(ch) for ch in d.decode("utf-8")]
            ols = so.split(b"\n")[:-1]
            ils = dinp.split(b"\n")[:-1]
            for l, g in zip(ils, ols):
                pb = parse_bracket(g)
                if pb is None:
                    c.violation("delims-option: output line %r is not of the form [piece]run..." % g, rep)
                    break
                bad = oracle(l, 3, bool(i % 2), want_delims, pb[0], pb[1])
                if bad:
                    c.violation("%s (option -d %r%s): line %r: %s" % (bad[0][0], d, "" if i % 2 else " with -s", l, bad[0][1]), dict(rep, kind=bad[0][0], requested_delimiters=want_delims))
                    break
        if not valid and (st == 0 or st == "timeout" or (isinstance(st, int) and (st < 0 or st >= 128))):
            c.violation("delims-option: -d %r is not valid UTF-8; expected a usage error, got status %s" % (d, st), rep)
        if dm is not None:
            m = dm[i]
            agree = (m == "USAGE" and isinstance(st, int) and 0 < st < 128) or (m == "OK " + hx(so) and st == 0)
            if not agree:
                c.broken.append("correspondence foldfilter_cli2 model vs bin/foldfilter -d %r: model %s, tool status %s stdout %s" % (d, m[:80], st, hx(so)[:80]))
    c.cov["traces_validated_against_impl"] += len(dstrs)

    return c.finish(level="proof",
                    rule="wrap_lines: every line over {a, e-acute, euro sign, U+1F600, space, middle dot} up to length %d x widths 1-6 x both -s modes x both delimiter preference orders; random lines of 1-4 byte code points (incl. CR, U+FFFD, U+10FFFF) with delimiter runs, widths around the line length, 7 delimiter lists incl. empty and multi-byte; malformed UTF-8 lines; tool level: bin/foldfilter x option sets x identity/bracketing/upper-casing children on multi-line inputs incl. empty lines, CR, no final newline. distinct = distinct non-empty inputs" % (5 if quick else 6),
                    assumptions=["lines shorter than 2^31 bytes (pos_first_delimiter is an int32_t)",
                                 "valid UTF-8 = accepted by the model of util::DecodeUTF8; every Unicode Table 3-7 byte string is (theorem C07_table37_is_valid, exhaustive sweeps over the regenerated scanner constants)",
                                 "the child is line-preserving: one answer line (without LF) per piece; pipes and threads are C05/C16",
                                 "the reader delivers the records of stdin (C02)"])


if __name__ == "__main__":
    sys.exit(main(sys.argv[1:]))
