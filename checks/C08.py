"""C08 -- b64filter preserves document boundaries and content around the child."""
import base64 as pyb64
import os
import sys
import tempfile

sys.path.insert(0, os.path.join(os.path.dirname(os.path.abspath(__file__)), "..", "tools"))
from checklib import *  # noqa

CHILDREN = os.path.join(VERIF, "harness", "children")


def hx(b):
    return b.hex() if b else "-"


def child_fn(kind):
    if kind in ("id", "tee"):
        return lambda l: l
    if kind == "bracket":
        return lambda l: b"[" + l + b"]"
    if kind == "upper":
        return lambda l: bytes(x - 32 if 97 <= x <= 122 else x for x in l)
    if kind == "addcr":
        return lambda l: l + b"\r"
    raise ValueError(kind)


def doc_lines(d):
    """the lines of a document as handed to the child (a final newline is forced)"""
    if d == b"":
        return [b""]
    ls = d.split(b"\n")
    if d.endswith(b"\n"):
        ls.pop()
    return ls


def spec_doc(g, d):
    """C08: the child's answers for exactly this document's lines, joined by LF,
    with a final LF iff the document had one"""
    return b"\n".join(g(l) for l in doc_lines(d)) + (b"\n" if d.endswith(b"\n") else b"")


SHAPES = [b"", b"\n", b"\n\n", b"\n\n\n", b"abc", b"abc\n", b"a\nb", b"a\nb\n", b"\nabc", b"\n\nabc\n\n", b"a\x00b\n", b"\x00",
          b"a\r\nb", b"a\r\nb\r\n", b"a\r", b"\r", b"\r\n", b"\rabc", b" ", b"x" * 5000 + b"\n" + b"y" * 3000, bytes(range(256)),
          "héllo wörld\n€\n".encode(), b"=", b"[]\n"]


def rand_doc(rng):
    r = rng.random()
    if r < 0.3:
        return rng.choice(SHAPES)
    n = rng.choice((0, 1, 2, 3, 5, 9))
    alphabet = [b"a", b"b", b"Z", b" ", b"\r", b"\x00", b"\xff", b"\xc3\xa9", b"word", b""]
    ls = [b"".join(rng.choice(alphabet) for _ in range(rng.choice((0, 1, 2, 4, 7)))) for _ in range(n)]
    d = b"\n".join(ls)
    if rng.random() < 0.5:
        d += b"\n"
    if rng.random() < 0.1:
        d += b"\n\n"
    return d


def encode_doc(rng, d):
    e = pyb64.b64encode(d)
    if rng.random() < 0.25:
        e = e.rstrip(b"=")         # unpadded base64 is accepted
    return e


def gen_cases(c, quick):
    rng = c.rng
    cases = []
    # every shape alone and between two plain neighbours (shift into neighbours shows)
    for s in SHAPES:
        cases.append([s])
        cases.append([b"first\n", s, b"last"])
    # odd documents far apart
    plain = [b"line %d\nsecond\n" % i for i in range(40)]
    for s in (b"", b"\n\n", b"a\r\nb"):
        seq = list(plain)
        seq[3] = s
        seq[31] = s
        cases.append(seq)
    cases.append([b""] * 12)
    cases.append([b"\n"] * 7 + [b""] + [b"x"])
    for i in range(40 if quick else 600):
        cases.append([rand_doc(rng) for _ in range(rng.choice((1, 2, 3, 5, 8, 20)))])
    return cases


def main(argv):
    c = Check("C08", argv)
    quick = c.tier == "quick"
    ok, blog = build_repo(["b64filter"])
    if not ok:
        c.broken.append("build of the repo working tree failed: " + blog[-800:])
        return c.finish(rule="build failed")
    ok_assert, blog = build_repo(["b64filter"], flavour="assert")
    if not ok_assert:
        c.broken.append("assertion-flavour build failed: " + blog[-500:])
    c.proofs()
    if not quick:
        coqchk(c)
    drv, dlog = build_driver("C08")
    tool = repo_bin("b64filter")
    tool_assert = repo_bin("b64filter", "assert")
    if drv is None:
        c.broken.append("extraction/driver build failed: " + dlog[-600:])

    cases = gen_cases(c, quick)
    kinds = ["id", "bracket", "upper", "addcr", "tee"]
    runs = []
    for i, docs in enumerate(cases):
        enc = [encode_doc(c.rng, d) for d in docs]
        inp = b"\n".join(enc) + b"\n"
        if c.rng.random() < 0.1 and enc[-1] != b"":
            inp = inp[:-1]                        # last line unterminated
        if c.rng.random() < 0.1:
            inp = inp.replace(b"\n", b"\r\n")     # base64 written on Windows: CR before LF is not part of the document
        ks = kinds if (not quick or i < 2 * len(SHAPES)) else c.rng.sample(kinds, 2)
        if i < 2 * len(SHAPES) and quick:
            ks = ["id", c.rng.choice(kinds[1:])]
        for k in ks:
            runs.append((docs, inp, k))
    # malformed input: a foreign byte in some document -> must not succeed
    for bad in (b"QUJD*\n", b"QUJD\nQU JD\n", b"\x7f\n"):
        runs.append((None, bad, "id"))

    mlines = ["B %s %s" % (k, hx(inp)) for (_, inp, k) in runs]
    mout = None
    if drv is not None:
        rc, mout, err = run_lines(drv, mlines + ["S " + hx(inp) for (_, inp, k) in runs if k == "tee"])
        if len(mout) < len(mlines):
            c.broken.append("model driver died: " + err[-300:])
            mout = None
    tee_model = mout[len(mlines):] if mout else []
    mcnt = None
    if drv is not None:
        ids = [i for i, (docs, inp, k) in enumerate(runs) if k == "id" and docs is not None]
        fl = [(i, d) for i in ids for d in runs[i][0]]
        rc, fo, err = run_lines(drv, ["F " + hx(d) for _, d in fl])
        if len(fo) == len(fl):
            mcnt = {}
            for (i, d), o in zip(fl, fo):
                t = o.split()
                mcnt.setdefault(i, []).append(int(t[2]) if t[0] == "OK" else -1)
            c.cov["traces_validated_against_impl"] += len(fl)
    tee_i = 0
    ndis = 0
    scratch = tempfile.mkdtemp(prefix="c08-", dir=os.environ.get("VERIF_BUILD", "/var/tmp"))
    try:
        for i, (docs, inp, k) in enumerate(runs):
            argv = [tool, os.path.join(CHILDREN, "child_%s.py" % k)]
            logf = None
            if k == "tee":
                logf = os.path.join(scratch, "tee.log")
                open(logf, "wb").close()
                argv.append(logf)
            # the feeder/collector trace hooks (PREPROCESS_VERIF, another property's hook commit) report
            # Document.line_cnt as the feeder computed it ("F lines n") and as the collector uses it ("C need n")
            tenv = dict(os.environ, PREPROCESS_VERIF_TRACE_FD="2") if k == "id" else None
            st, so, se = run_limited(argv, stdin=inp, timeout=30, env=tenv)
            if tenv is not None and docs is not None and st == 0:
                tl = se.decode("utf-8", "replace").split("\n")
                fcnt = [int(x.split()[2]) for x in tl if x.startswith("F lines ")]
                ccnt = [int(x.split()[2]) for x in tl if x.startswith("C need ")]
                if fcnt or ccnt:          # hooks present in this tree
                    want_cnt = [len(doc_lines(d)) for d in docs]
                    c.cov["traces_validated_against_impl"] += 1
                    if fcnt != want_cnt or ccnt != want_cnt:
                        j = [x for x in range(len(want_cnt)) if x >= len(fcnt) or x >= len(ccnt) or fcnt[x] != want_cnt[x] or ccnt[x] != want_cnt[x]]
                        c.violation("line-count-bookkeeping: per-document line counts: feeder %r, collector %r, documents have %r lines (first difference at document %s)" % (fcnt[:12], ccnt[:12], want_cnt[:12], j[:1]),
                                    {"op": "b64filter", "child": "child_id.py", "stdin": inp.decode("latin1"), "documents": [d.decode("latin1") for d in docs],
                                     "feeder_line_cnt": fcnt, "collector_need": ccnt, "expected": want_cnt, "how": "PREPROCESS_VERIF_TRACE_FD=2 b64filter child_id.py"})
                    if mcnt is not None:
                        mc = mcnt.get(i)
                        if mc is not None and mc != fcnt:
                            c.broken.append("correspondence feed_doc model vs feeder trace: model line counts %r, trace %r" % (mc[:12], fcnt[:12]))
                se = b""
            shape = "malformed" if docs is None else ("has-empty-doc" if b"" in docs else ("has-cr" if any(b"\r" in d for d in docs) else "plain"))
            c.count((k, inp), nontrivial=len(inp) > 1, bucket="%s/%s" % (k, shape))
            rep = {"op": "b64filter", "child": "child_%s.py" % k, "stdin": inp.decode("latin1"), "stdin_hex": hx(inp),
                   "documents": [d.decode("latin1") for d in docs] if docs is not None else None,
                   "status": st, "stdout": so.decode("latin1")[:2000], "stderr": se.decode("utf-8", "replace")[-300:],
                   "how": "printf '<stdin>' | b64filter harness/children/child_%s.py" % k}
            # --- correspondence with the model of the tool
            if mout is not None:
                m = mout[i]
                if m.startswith("OK"):
                    agree = (st == 0 and m == "OK " + hx(so))
                elif m.startswith("ABORT"):
                    agree = (st != 0 and st != "timeout")
                else:
                    agree = False      # UB / FUEL in the model never corresponds to defined behaviour
                if not agree:
                    ndis += 1
                    if ndis == 1:
                        c.broken.append("correspondence b64filter model vs bin/b64filter: child %s stdin %r: model %s, tool status %s stdout %r" % (k, inp[:120], m[:160], st, so[:120]))
                if k == "tee":
                    sent = open(logf, "rb").read()
                    if tee_model[tee_i] != "OK " + hx(sent) and not (tee_model[tee_i] == "NONE"):
                        ndis += 1
                        c.broken.append("correspondence child stdin: model %s, child received %s" % (tee_model[tee_i][:160], hx(sent)[:160]))
                    tee_i += 1
            # --- direct oracle
            if st == "timeout":
                c.violation("hang: b64filter did not finish within 30 s", rep)
                continue
            if docs is None:
                if st == 0:
                    c.violation("malformed-accepted: b64filter exit 0 on input that is not base64", rep)
                continue
            if st != 0:
                c.violation("tool-failed: b64filter exit status %s on well-formed documents with a line-preserving child" % st, rep)
                continue
            out_lines = so.split(b"\n")
            if so.endswith(b"\n") or so == b"":
                out_lines.pop()
            if len(out_lines) != len(docs):
                c.violation("document-count: %d documents in, %d base64 lines out" % (len(docs), len(out_lines)), rep)
                continue
            g = child_fn(k)
            for j, (d, ol) in enumerate(zip(docs, out_lines)):
                want = spec_doc(g, d)
                try:
                    got = pyb64.b64decode(ol, validate=True)
                except Exception:
                    c.violation("output-not-base64: output line %d = %r" % (j, ol[:80]), rep)
                    break
                if got != want:
                    what = "identity-child" if k in ("id", "tee") else "child-%s" % k
                    c.violation("%s: document %d %r came back as %r, expected %r" % (what, j, d[:80], got[:80], want[:80]),
                                dict(rep, document_index=j, got=got.decode("latin1"), expected=want.decode("latin1")))
                    break
                if ol != pyb64.b64encode(want):
                    c.violation("output-not-canonical-base64: line %d = %r" % (j, ol[:80]), rep)
                    break
            # --- undefined behaviour made visible: the same input on the build with libstdc++ assertions
            if ok_assert and k == "id" and (b"" in docs or i % 7 == 0):
                st2, so2, se2 = run_limited([tool_assert, os.path.join(CHILDREN, "child_id.py")], stdin=inp, timeout=30)
                c.count(("assert", inp), nontrivial=True, bucket="assert-build/" + shape)
                if st2 != 0 or so2 != so:
                    c.violation("undefined-behaviour: b64filter built with -D_GLIBCXX_ASSERTIONS ends with status %s (%s) on this input; the plain build exits %s" % (st2, " ".join(se2.decode("utf-8", "replace").split())[-200:], st),
                                dict(rep, assert_build_status=st2, assert_build_stderr=se2.decode("utf-8", "replace")[-400:],
                                     how="build with -D_GLIBCXX_ASSERTIONS; printf '<stdin>' | b64filter child_id.py"))
        # --- children that break the line structure: the tool must fail, never shift documents
        sruns = []
        for i, docs in enumerate(cases):
            if i % (3 if quick else 1) == 0 and docs:
                enc = [pyb64.b64encode(d) for d in docs]
                sruns.append((docs, b"\n".join(enc) + b"\n", "drop2" if i % 2 == 0 else "extra"))
                if i % 2 == 0:
                    # a child with memory (numbers the lines it reads); last stdin line unterminated every other time
                    sruns.append((docs, b"\n".join(enc) + (b"\n" if i % 4 == 0 or enc[-1] == b"" else b""), "number"))
        smodel = None
        if drv is not None:
            rc, smodel, err = run_lines(drv, ["BS %s %s" % (k, hx(inp)) for (_, inp, k) in sruns])
            if len(smodel) != len(sruns):
                c.broken.append("model driver died on stream children: " + err[-300:])
                smodel = None
        for j, (docs, inp, k) in enumerate(sruns):
            st, so, se = run_limited([tool, os.path.join(CHILDREN, "child_%s.py" % k)], stdin=inp, timeout=30)
            nlines = sum(len(doc_lines(d)) for d in docs)
            c.count(("stream", k, inp), nontrivial=True, bucket="child-%s/%s" % (k, "1-line" if nlines == 1 else "n-lines"))
            rep = {"op": "b64filter", "child": "child_%s.py" % k, "stdin": inp.decode("latin1"), "documents": [d.decode("latin1") for d in docs],
                   "status": st, "stdout": so.decode("latin1")[:1000], "stderr": se.decode("utf-8", "replace")[-300:]}
            if k == "number":
                # oracle: document j = the numbered answers at the positions of its own lines
                pos, want = 0, []
                for d in docs:
                    dls = doc_lines(d)
                    want.append(b"\n".join(b"%d:" % (pos + x + 1) + l for x, l in enumerate(dls)) + (b"\n" if d.endswith(b"\n") else b""))
                    pos += len(dls)
                if st != 0 or so != b"".join(pyb64.b64encode(w) + b"\n" for w in want):
                    c.violation("stateful-child: with the numbering child (answer i = 'i:' + line) the documents do not carry the numbers of their own lines: status %s" % st, dict(rep, expected=[w.decode("latin1")[:200] for w in want]))
                if smodel is not None and not (smodel[j] == "OK " + hx(so) and st == 0):
                    c.broken.append("correspondence b64filter stream model vs bin/b64filter with child_number.py: stdin %r: model %s, tool status %s" % (inp[:100], smodel[j][:100], st))
                continue
            must_fail = (k == "extra") or nlines >= 2
            if st == "timeout":
                c.violation("hang: b64filter with a child that %s did not finish" % ("drops a line" if k == "drop2" else "adds a line"), rep)
            elif must_fail and st == 0:
                c.violation("line-structure-broken-unnoticed: child_%s.py wrote %s than it was given, b64filter exit 0" % (k, "one line fewer" if k == "drop2" else "one line more"), rep)
            if smodel is not None:
                m = smodel[j]
                agree = (m.startswith("OK") and st == 0 and m == "OK " + hx(so)) or (m.startswith("ABORT") and st not in (0, "timeout"))
                if not agree:
                    c.broken.append("correspondence b64filter model vs bin/b64filter with child_%s.py: stdin %r: model %s, tool status %s" % (k, inp[:100], m[:100], st))
        c.cov["traces_validated_against_impl"] += len(sruns)
        # --- long streams: the feeder->collector queue (util::UnboundedSingleQueue) works in pages of 1023
        #     entries; document counts around multiples of the page size, all at once and with stdin
        #     stalling exactly at a page boundary (the collector then catches up with the feeder there)
        stream_hangs = [0]

        def check_stream(tag, docs, st, so, se, how):
            if st == "timeout":
                stream_hangs[0] += 1
            c.count((tag, len(docs)), nontrivial=True, bucket="long-stream/" + tag.split(":")[0])
            rep = {"op": "b64filter", "child": "child_id.py", "documents": len(docs), "first_documents": [d.decode("latin1") for d in docs[:3]],
                   "status": st, "stdout_lines": so.count(b"\n"), "stderr": se.decode("utf-8", "replace")[-300:], "how": how}
            if st == "timeout":
                c.violation("hang: b64filter did not finish a stream of %d documents (%s)" % (len(docs), tag), rep)
                return
            if st != 0:
                c.violation("tool-failed: b64filter exit status %s on a stream of %d well-formed documents (%s), %d of them came out" % (st, len(docs), tag, so.count(b"\n")), rep)
                return
            ol = so.split(b"\n")
            if so.endswith(b"\n") or so == b"":
                ol.pop()
            if len(ol) != len(docs):
                c.violation("document-count: %d documents in, %d base64 lines out (%s)" % (len(docs), len(ol), tag), rep)
                return
            for j, (d, l) in enumerate(zip(docs, ol)):
                if l != pyb64.b64encode(d):
                    try:
                        got = pyb64.b64decode(l)
                    except Exception:
                        got = l
                    c.violation("identity-child: document %d of %d (%s) %r came back as %r" % (j, len(docs), tag, d[:60], got[:60]), dict(rep, document_index=j))
                    return

        def mkdocs(n, salt):
            ds = []
            for i in range(n):
                if i % 1023 == 1022:
                    ds.append(b"long document %d\n" % i + b"x" * 9000 + b"\nend")      # forces a flush towards the child
                elif i % 5 == 0:
                    ds.append(b"doc %d %d" % (salt, i))                               # no final newline
                elif i % 13 == 0:
                    ds.append(b"")
                else:
                    ds.append(b"document %d line one\nline two of %d\n" % (i, i))
            return ds
        idc = os.path.join(CHILDREN, "child_id.py")
        for n in ((1022, 1023, 1024, 2046, 2047, 3500) if quick else (1021, 1022, 1023, 1024, 1025, 2045, 2046, 2047, 2048, 3069, 3500, 5200)):
            if stream_hangs[0] >= 2:
                break
            docs = mkdocs(n, n)
            inp = b"".join(pyb64.b64encode(d) + b"\n" for d in docs)
            st, so, se = run_limited([tool, idc], stdin=inp, timeout=60)
            check_stream("at-once", docs, st, so, se, "%d documents (see mkdocs in checks/C08.py) | b64filter child_id.py" % n)
        # documents around the 8192-byte buffer of the stream towards the child (larger writes bypass the buffer)
        edge = [b"q" * 8191, b"", b"q" * 8192, b"x\n", b"q" * 8191 + b"\n", b"q" * 8192 + b"\n", b"q" * 8193, b"q" * 4095 + b"\n" + b"r" * 4096, b"last"]
        st, so, se = run_limited([tool, idc], stdin=b"".join(pyb64.b64encode(d) + b"\n" for d in edge), timeout=60)
        check_stream("buffer-edge", edge, st, so, se, "documents of 8191/8192/8193 bytes with and without final newline | b64filter child_id.py")
        # runs of tiny documents: thousands of queue entries while everything sent to the child still fits
        # in the feeder's 8 KiB buffer (nothing is flushed before the end of the input)
        for n, tiny in ((1000, b""), (1024, b""), (1025, b"x"), (2048, b""), (3000, b"y")):
            if stream_hangs[0] >= 2:
                break
            docs = [tiny] * n
            st, so, se = run_limited([tool, idc], stdin=b"".join(pyb64.b64encode(d) + b"\n" for d in docs), timeout=30)
            check_stream("tiny-documents", docs, st, so, se, "%d documents %r | b64filter child_id.py" % (n, tiny))
        # a line longer than the reader's 1 MiB buffer (stdin line > 1 MiB, document line and child answer > 1 MiB)
        # right after a short document; stdin as a pipe and as a regular file
        huge = [b"A\n", b"B" * 1500000 + b"\n", b"tail", b"C" * 1200000, b"z\n"]
        hin = b"".join(pyb64.b64encode(d) + b"\n" for d in huge)
        if stream_hangs[0] < 2:
            st, so, se = run_limited([tool, idc], stdin=hin, timeout=120, mem_mb=4096)
            check_stream("huge-line:pipe", huge, st, so, se, "documents A / 1.5 MB line / tail / 1.2 MB unterminated / z through a pipe | b64filter child_id.py")
            hf = os.path.join(scratch, "huge.in")
            open(hf, "wb").write(hin)
            with open(hf, "rb") as fh:
                try:
                    pr = subprocess.run([tool, "cat"], stdin=fh, stdout=subprocess.PIPE, stderr=subprocess.PIPE, timeout=120)
                    st, so, se = pr.returncode, pr.stdout, pr.stderr
                except subprocess.TimeoutExpired as e:
                    st, so, se = "timeout", e.stdout or b"", e.stderr or b""
            check_stream("huge-line:file", huge, st, so, se, "the same with stdin redirected from a regular file | b64filter cat")
        # one very large document (bigger than every stream buffer and pipe) between small ones
        big = b"".join(b"row %d of the big document %s\n" % (i, b"z" * (i % 97)) for i in range(6000))
        docs = mkdocs(40, 1) + [big, b"", big[:-1]] + mkdocs(40, 2)
        st, so, se = run_limited([tool, idc], stdin=b"".join(pyb64.b64encode(d) + b"\n" for d in docs), timeout=120)
        check_stream("big-document", docs, st, so, se, "80 small documents around two ~400 kB documents of 6000 lines | b64filter child_id.py")
        for n, cuts in ((2500, (1023, 2046)), (1100, (1022,)), (2100, (1024, 2047))):
            docs = mkdocs(n, 7)
            enc = [pyb64.b64encode(d) + b"\n" for d in docs]
            parts, prev = [], 0
            for cpos in cuts:
                parts.append(b"".join(enc[prev:cpos]))
                prev = cpos
            parts.append(b"".join(enc[prev:]))
            for child in (idc, "cat"):
                if stream_hangs[0] >= 2:
                    break
                st, so, se = run_staged([tool, child], parts, pause=1.2, timeout=60)
                check_stream("stalled-stdin:%s" % os.path.basename(child), docs, st, so, se,
                             "%d documents, stdin pauses 1.2 s after document(s) %s | b64filter %s" % (n, list(cuts), os.path.basename(child)))
        c.cov["traces_validated_against_impl"] += 12
        # --- thorough: every document shape through the AddressSanitizer build of the tool (UBSan is left out:
        #     it stops at the signed left shift in preprocess/base64.cc, C09's modelled 32-bit wrap)
        if not quick:
            ok_asan, alog = build_repo(["b64filter"], flavour="asan_only")
            if not ok_asan:
                c.broken.append("asan build of b64filter failed: " + alog[-300:])
            else:
                aenv = dict(os.environ, ASAN_OPTIONS="detect_leaks=0", UBSAN_OPTIONS="print_stacktrace=1:halt_on_error=1")
                for docs in cases[:2 * len(SHAPES) + 5]:
                    inp = b"".join(pyb64.b64encode(d) + b"\n" for d in docs)
                    st, so, se = run_limited([repo_bin("b64filter", "asan_only"), idc], stdin=inp, timeout=60, mem_mb=0, env=aenv)
                    c.count(("asan", inp), nontrivial=True, bucket="asan-build")
                    if st != 0 or b"AddressSanitizer" in se or b"runtime error" in se:
                        c.violation("memory: sanitizer report / failure of the AddressSanitizer build of b64filter (status %s): %s" % (st, " ".join(se.decode("utf-8", "replace").split())[:300]),
                                    {"op": "b64filter-asan", "stdin": inp.decode("latin1"), "documents": [d.decode("latin1") for d in docs], "status": st, "report": se.decode("utf-8", "replace")[-1500:]})
                        break
    finally:
        shutil.rmtree(scratch, ignore_errors=True)
    c.cov["traces_validated_against_impl"] += len(runs)
    c.sample({"documents": [d.decode("latin1") for d in cases[1]], "stdin": runs[2][1].decode("latin1")[:200]})
    c.sample({"documents": [d.decode("latin1")[:40] for d in cases[-1]]})
    return c.finish(level="proof",
                    rule="bin/b64filter on document sequences x children {identity, bracketing, upper-casing, CR-appending, logging}: every document shape (empty, newline-only, no final newline, NUL, CR/CRLF, 8-bit, long lines) alone and between two neighbours, odd documents far apart in 40-document streams, random sequences of 1-20 documents, padded/unpadded base64, CRLF-terminated and unterminated input, malformed base64; each output document compared with the child's answers for exactly that document's lines; empty-document inputs replayed on a -D_GLIBCXX_ASSERTIONS build",
                    assumptions=["the child is line-preserving (one answer line per input line); pipes, threads and the queue are C05/C16",
                                 "base64_decode/base64_encode are the C09 model (proved RFC 4648 round trip)",
                                 "the reader delivers the records of stdin / of the child's output (C02)"])


if __name__ == "__main__":
    sys.exit(main(sys.argv[1:]))
