"""C09 -- base64 codec and docenc round-trip exactly and reject foreign bytes."""
import base64 as pyb64
import os
import sys

sys.path.insert(0, os.path.join(os.path.dirname(os.path.abspath(__file__)), "..", "tools"))
from checklib import *  # noqa

ALPHA = b"ABCDEFGHIJKLMNOPQRSTUVWXYZabcdefghijklmnopqrstuvwxyz0123456789+/"


def gen_cases(c):
    rng = c.rng
    enc, dec = [], []
    # exhaustive lengths 0-2 (encode), and their decodings
    enc.append(b"")
    for a in range(256):
        enc.append(bytes([a]))
    step = 1 if c.tier == "thorough" else 1
    for a in range(0, 256, step):
        for b in range(256):
            enc.append(bytes([a, b]))
    # random up to 4 KiB, lengths aimed at every residue mod 3 and the int-overflow point (>4 bytes)
    for n in list(range(3, 40)) + [rng.randrange(40, 4096) for _ in range(120 if c.tier == "quick" else 1500)]:
        enc.append(bytes(rng.randrange(256) for _ in range(n)))
        enc.append(bytes(rng.choice((0, 255, 0x80, 0x7f)) for _ in range(n)))
    # decode: valid encodings, padded and with 1..2 pads stripped
    for bs in enc[:600] + enc[-200:]:
        e = pyb64.b64encode(bs)
        dec.append(e)
        s = e.rstrip(b"=")
        if s != e:
            dec.append(s)
            if e.endswith(b"=="):
                dec.append(e[:-1])
    # every single foreign byte at every position of encodings up to length 8
    bases = [pyb64.b64encode(bytes(rng.randrange(256) for _ in range(n))) for n in (0, 1, 2, 3, 4, 5, 6)]
    for e in bases:
        for pos in range(len(e) + 1):
            for f in range(256):
                dec.append(e[:pos] + bytes([f]) + e[pos:])
                if c.tier == "thorough" or f in (0x7f, 0xff, 0x3d, 0x0a, 0x2d, 0x5f, 0x80, 0x00):
                    dec.append(e[:pos] + bytes([f]) + e[pos + 1:])
    # two-byte corruptions at block boundaries
    e = pyb64.b64encode(b"abcdefghi")
    pairs = [(x, y) for x in range(256) for y in range(256)] if c.tier == "thorough" else \
        [(rng.randrange(256), rng.randrange(256)) for _ in range(3000)]
    for x, y in pairs:
        dec.append(e[:3] + bytes([x, y]) + e[5:])
    # all-padding and short weird inputs (reserve() guard)
    for k in range(0, 9):
        dec.append(b"=" * k)
        dec.append(b"A" + b"=" * k)
        dec.append(b"AB" + b"=" * k)
    # malformed stream: random bytes
    for _ in range(500 if c.tier == "quick" else 5000):
        n = rng.randrange(1, 24)
        dec.append(bytes(rng.randrange(256) for _ in range(n)))
    return enc, dec


def first_foreign(cs):
    """index of first byte outside alphabet occurring before the first '=', or None"""
    for i, ch in enumerate(cs):
        if ch == 0x3d:
            return None
        if ch not in ALPHA:
            return i
    return None


def main(argv):
    c = Check("C09", argv)
    ok, blog = build_repo(["hx_base64", "docenc"])
    if not ok:
        c.broken.append("build of /repo working tree failed: " + blog[-800:])
        return c.finish(rule="build failed")
    c.proofs()
    drv, dlog = build_driver("C09")
    impl = hx_bin("hx_base64")
    enc, dec = gen_cases(c)
    lines = ["E " + hexs(b) for b in enc] + ["D " + hexs(b) for b in dec]
    for b in enc:
        c.count(("E", b), nontrivial=len(b) > 0, bucket="encode/len%3=" + str(len(b) % 3))
    for b in dec:
        ff = first_foreign(b)
        c.count(("D", b), nontrivial=len(b) > 0, bucket="decode/" + ("foreign" if ff is not None else "no-foreign"))
    c.sample({"op": "E", "hex": hexs(enc[300])})
    c.sample({"op": "D", "bytes": dec[5].decode("latin1")})
    c.sample({"op": "D", "bytes": repr(dec[-1])})

    # --- correspondence: extracted model vs implementation
    if drv is None:
        c.broken.append("extraction/driver build failed: " + dlog[-600:])
    else:
        correspond(c, "base64 model vs preprocess/base64.cc", drv, impl, lines)

    # --- direct property oracles on the implementation (the search)
    rc, out, err = run_lines(impl, lines)
    if len(out) != len(lines):
        c.broken.append("harness hx_base64 died: rc=%s %s" % (rc, err[-300:]))
    else:
        for b, o in zip(enc, out[:len(enc)]):
            want = "OK " + hexs(pyb64.b64encode(b))
            if o != want:
                c.violation("encode-not-rfc4648: base64_encode(%s) gave %s, RFC 4648 says %s" % (hexs(b), o, want),
                            {"op": "encode", "input_hex": hexs(b), "impl": o, "expected": want})
        for b, o in zip(dec, out[len(enc):]):
            ff = first_foreign(b)
            if ff is not None:
                if o.startswith("OK"):
                    c.violation("foreign-byte-accepted: byte 0x%02x at offset %d (before any '=') decoded as data: decode(%r) = %s" % (b[ff], ff, b, o),
                                {"op": "decode", "input_hex": hexs(b), "foreign_byte": "0x%02x" % b[ff], "impl": o,
                                 "how": "printf '<input>\\n' | docenc -d  (or harness hx_base64: D <hex>)"})
            else:
                # is it (a pad-stripped form of) a canonical encoding?  then must round trip
                core = b.split(b"=")[0]
                try:
                    raw = pyb64.b64decode(core + b"=" * (-len(core) % 4), validate=True) if len(core) % 4 != 1 else None
                except Exception:
                    raw = None
                if raw is not None and pyb64.b64encode(raw).rstrip(b"=") == core and b in (
                        pyb64.b64encode(raw), core, pyb64.b64encode(raw)[:-1] if pyb64.b64encode(raw).endswith(b"==") else core):
                    if o != "OK " + hexs(raw):
                        c.violation("roundtrip: decode(%r) gave %s expected %s" % (b, o, hexs(raw)),
                                    {"op": "decode", "input_hex": hexs(b), "impl": o, "expected_hex": hexs(raw)})
    return c.finish(level="proof",
                    rule="encode: all byte strings of length 0-2 exhaustively + random/boundary strings to 4 KiB; decode: canonical encodings with 0..2 pads removed, every byte value inserted/substituted at every offset of encodings of 0-6 bytes, two-byte corruptions at a block boundary, pad-only strings, random bytes. distinct = distinct non-empty inputs",
                    assumptions=["util::Exception from base64_decode = error; std::length_error from reserve() = error",
                                 "bytes are modelled as Z in [0,256); `int val` as 32-bit two's complement wrap (g++ behaviour)"])


if __name__ == "__main__":
    sys.exit(main(sys.argv[1:]))
