"""C09 -- base64 codec and docenc round-trip exactly and reject foreign bytes."""
import base64 as pyb64
import os
import sys

sys.path.insert(0, os.path.join(os.path.dirname(os.path.abspath(__file__)), "..", "tools"))
from checklib import *  # noqa

ALPHA = b"ABCDEFGHIJKLMNOPQRSTUVWXYZabcdefghijklmnopqrstuvwxyz0123456789+/"


def gen_cases(c):
    rng = c.rng
    enc, dec = [], []
    # exhaustive lengths 0-2 (encode), and their decodings
    enc.append(b"")
    for a in range(256):
        enc.append(bytes([a]))
    step = 1 if c.tier == "thorough" else 1
    for a in range(0, 256, step):
        for b in range(256):
            enc.append(bytes([a, b]))
    # random up to 4 KiB, lengths aimed at every residue mod 3 and the int-overflow point (>4 bytes)
    for n in list(range(3, 40)) + [rng.randrange(40, 4096) for _ in range(120 if c.tier == "quick" else 1500)]:
        enc.append(bytes(rng.randrange(256) for _ in range(n)))
        enc.append(bytes(rng.choice((0, 255, 0x80, 0x7f)) for _ in range(n)))
    # decode: valid encodings, padded and with 1..2 pads stripped
    for bs in enc[:600] + enc[-200:]:
        e = pyb64.b64encode(bs)
        dec.append(e)
        s = e.rstrip(b"=")
        if s != e:
            dec.append(s)
            if e.endswith(b"=="):
                dec.append(e[:-1])
    # every single foreign byte at every position of encodings up to length 8
    bases = [pyb64.b64encode(bytes(rng.randrange(256) for _ in range(n))) for n in (0, 1, 2, 3, 4, 5, 6)]
    for e in bases:
        for pos in range(len(e) + 1):
            for f in range(256):
                dec.append(e[:pos] + bytes([f]) + e[pos:])
                if c.tier == "thorough" or f in (0x7f, 0xff, 0x3d, 0x0a, 0x2d, 0x5f, 0x80, 0x00):
                    dec.append(e[:pos] + bytes([f]) + e[pos + 1:])
    # two-byte corruptions at block boundaries
    e = pyb64.b64encode(b"abcdefghi")
    pairs = [(x, y) for x in range(256) for y in range(256)] if c.tier == "thorough" else \
        [(rng.randrange(256), rng.randrange(256)) for _ in range(3000)]
    for x, y in pairs:
        dec.append(e[:3] + bytes([x, y]) + e[5:])
    # all-padding and short weird inputs (reserve() guard)
    for k in range(0, 9):
        dec.append(b"=" * k)
        dec.append(b"A" + b"=" * k)
        dec.append(b"AB" + b"=" * k)
    # malformed stream: random bytes
    for _ in range(500 if c.tier == "quick" else 5000):
        n = rng.randrange(1, 24)
        dec.append(bytes(rng.randrange(256) for _ in range(n)))
    return enc, dec


def first_foreign(cs):
    """index of first byte outside alphabet occurring before the first '=', or None"""
    for i, ch in enumerate(cs):
        if ch == 0x3d:
            return None
        if ch not in ALPHA:
            return i
    return None


# ---------------------------------------------------------------- docenc tool level
def gen_docs(c, delim):
    """document sequences: structured mostly-valid + adversarial (CR, blank-looking lines)"""
    rng = c.rng
    alphabet = [b"a", b"b", b"\r", b" ", b"\xc3\xa9", b"\xff", b"="]
    if delim == 0:
        alphabet += [b"\n", b"\n\n"]
    else:
        alphabet += [b"\x00"]
    cases = []
    n_cases = 60 if c.tier == "quick" else 600
    for _ in range(n_cases):
        docs = []
        for _ in range(rng.randrange(0, 5)):
            if delim == 10:
                lines = []
                for _ in range(rng.randrange(0, 4)):
                    l = b"".join(rng.choice(alphabet) for _ in range(rng.randrange(1, 5)))
                    lines.append(l)
                docs.append(b"".join(l + b"\n" for l in lines))
            else:
                docs.append(b"".join(rng.choice(alphabet) for _ in range(rng.randrange(0, 6))))
        cases.append(docs)
    # documents larger than internal buffers / block sizes (lengths around powers of two and multiples of 3)
    sizes = [4094, 4095, 4096, 4097, 4098, 8191, 8193, 12289] + ([65537, 1 << 20] if c.tier == "thorough" else [40000])
    for n in sizes:
        body = bytes(rng.choice(b"abcdefgh \xc3\xa9") for _ in range(n))
        if delim == 10:
            # newline-terminated lines of <= 100 bytes, total length exactly n
            out = bytearray()
            while len(out) < n:
                remaining = n - len(out)
                k = min(rng.randrange(1, 100), remaining - 1)
                if remaining - (k + 1) == 1:      # never leave room for only a bare newline (= blank line)
                    k += 1
                k = max(k, 1)
                out += body[len(out):len(out) + k].replace(b"\n", b"x").ljust(k, b"y") + b"\n"
            assert b"\n\n" not in out and not out.startswith(b"\n")
            cases.append([bytes(out), b"tail\n"])
            cases.append([b"head\n", bytes(out), b"mid\n", bytes(out[:6200]).rsplit(b"\n", 1)[0] + b"\n", b"tail\n"])
        else:
            cases.append([body, b"tail"])
            cases.append([b"head", body, b"mid", body[:6200], b"tail"])
    # targeted: CR at end of line, a line that is only CR, CR before separator, empty docs, many docs
    if delim == 10:
        cases += [[b"a\r\nb\n"], [b"x\n\r\ny\n"], [b"\r\n"], [b"", b"a\n", b""], [b"a\n"] * 7, [b""], []]
    else:
        cases += [[b"abc\r"], [b"\r"], [b"", b"a", b""], [b"a\nb\n\nc"], [b""], []]
    return cases


def docenc_tool(c, drv):
    exe = repo_bin("docenc")
    rng = c.rng
    import base64 as b64
    model_lines, runs = [], []
    for delim in (10, 0):
        flag = ["-0"] if delim == 0 else []
        for docs in gen_docs(c, delim):
            b64file = b"".join(b64.b64encode(d) + b"\n" for d in docs)
            # (1) property oracle: docenc -d | docenc reproduces the base64 file
            st1, out1, err1 = run_tool([exe, "-d", "-q"] + flag, b64file, timeout=20)
            st2, out2, err2 = run_tool([exe] + flag, out1, timeout=20) if st1 == 0 else (None, b"", b"")
            c.count(("docenc-rt", delim, b64file), nontrivial=len(docs) > 0, bucket="docenc-roundtrip/delim=%d" % delim)
            if len(c.cov["samples"]) < 5:
                c.sample({"op": "docenc -d | docenc", "delim": delim, "docs": [repr(d) for d in docs]})
            if st1 != 0 or st2 != 0 or out2 != b64file:
                c.violation("docenc-roundtrip: docenc -d %s| docenc %sdoes not reproduce documents %r: got %r (status %s/%s)" % (
                    "-0 " if delim == 0 else "", "-0 " if delim == 0 else "", docs, out2[:200], st1, st2),
                    {"op": "docenc-roundtrip", "delim": delim, "b64_input_hex": hexs(b64file), "output_hex": hexs(out2), "status": [st1, st2],
                     "how": "printf <b64 input> | docenc -d -q %s| docenc %s" % (" ".join(flag), " ".join(flag))})
            # (2) correspondence with the model, decode and encode separately
            small = len(b64file) <= 9000   # the extracted model's list `rev` is quadratic per record
            if small:
                model_lines.append("TD %d - %s" % (delim, hexs(b64file)))
                runs.append(([exe, "-d", "-q"] + flag, b64file))
                model_lines.append("TE %d - %s" % (delim, hexs(out1)))
                runs.append(([exe] + flag, out1))
            # (3) index selection
            n = len(docs)
            for _ in range(2):
                k = rng.randrange(1, 4)
                idx = [rng.randrange(1, n + 3) for _ in range(k)]
                if rng.random() < 0.15:
                    idx.append(0)
                args = []
                want = set()
                for i in idx:
                    if rng.random() < 0.3 and i > 0:
                        j = i + rng.randrange(0, 3)
                        args.append("%d-%d" % (i, j))
                        want |= set(range(i, j + 1))
                    else:
                        args.append(str(i))
                        want.add(i)
                flat = []
                for a in args:
                    if "-" in a:
                        lo, hi = a.split("-")
                        flat += list(range(int(lo), int(hi) + 1))
                    else:
                        flat.append(int(a))
                st, out, err = run_tool([exe, "-d", "-q"] + flag + args, b64file, timeout=20)
                c.count(("docenc-idx", delim, tuple(args), b64file), nontrivial=n > 0, bucket="docenc-index/delim=%d" % delim)
                if small:
                    model_lines.append("TD %d %s %s" % (delim, ",".join(map(str, flat)), hexs(b64file)))
                    runs.append(([exe, "-d", "-q"] + flag + args, b64file))
                if 0 in want:
                    continue    # index 0 is rejected with a usage error (model says USAGE)
                # encode side: docenc -d | docenc IDX keeps exactly the listed base64 lines
                if st1 == 0:
                    ste, oute, erre = run_tool([exe] + flag + args, out1, timeout=20)
                    if small:
                        model_lines.append("TE %d %s %s" % (delim, ",".join(map(str, flat)), hexs(out1)))
                        runs.append(([exe] + flag + args, out1))
                    blines = b64file.split(b"\n")[:-1]
                    expect_e = b"".join(blines[i - 1] + b"\n" for i in sorted(want) if 1 <= i <= n)
                    c.count(("docenc-idx-enc", delim, tuple(args), b64file), nontrivial=n > 0, bucket="docenc-index-encode/delim=%d" % delim)
                    if 0 not in want and (ste != 0 or oute != expect_e):
                        c.violation("docenc-index-encode: docenc %s on %d documents printed %r, expected base64 of documents %s = %r" % (
                            " ".join(args), n, oute[:200], sorted(want), expect_e[:200]),
                            {"op": "docenc-index-encode", "delim": delim, "args": args, "input_hex": hexs(out1), "output_hex": hexs(oute), "expected_hex": hexs(expect_e), "status": ste})
                expect = b"".join(docs[i - 1] + bytes([delim]) for i in sorted(want) if 1 <= i <= n)
                if st != 0 or out != expect:
                    c.violation("docenc-index: docenc -d %s selected %r, expected documents %s = %r" % (" ".join(args), out[:200], sorted(want), expect[:200]),
                                {"op": "docenc-index", "delim": delim, "args": args, "b64_input_hex": hexs(b64file), "output_hex": hexs(out), "expected_hex": hexs(expect), "status": st})
    # malformed stream for the correspondence only: arbitrary bytes into both modes
    for _ in range(40 if c.tier == "quick" else 400):
        raw = bytes(rng.choice(b"aQ=\n\r\x00\x7f\xff \n\n") for _ in range(rng.randrange(0, 14)))
        d = rng.choice((10, 0))
        flag = ["-0"] if d == 0 else []
        model_lines.append("TD %d - %s" % (d, hexs(raw)))
        runs.append(([exe, "-d", "-q"] + flag, raw))
        model_lines.append("TE %d - %s" % (d, hexs(raw)))
        runs.append(([exe] + flag, raw))
        c.count(("docenc-raw", d, raw), nontrivial=len(raw) > 0, bucket="docenc-malformed")
    if drv is None:
        return
    rc, mout, err = run_lines(drv, model_lines)
    if len(mout) != len(model_lines):
        c.broken.append("correspondence docenc: driver failed rc=%s %s" % (rc, err[-300:]))
        return
    dis = 0
    for ml, mo, (argv, stdin) in zip(model_lines, mout, runs):
        st, out, err = run_tool(argv, stdin, timeout=20)
        if st == 0:
            io = "OK " + hexs(out)
        elif st == -6:
            io = "ABORT"
        elif st == 1:
            io = "USAGE"
        else:
            io = "STATUS %s" % st
        c.cov["traces_validated_against_impl"] += 1
        if io != mo:
            dis += 1
            if dis == 1:
                c.broken.append("correspondence docenc model vs bin/docenc: case %r (argv %s): model=%s impl=%s" % (ml[:120], " ".join(argv[1:]), mo[:120], io[:120]))


def b64_line_tools(c):
    """base64_number and remove_invalid_utf8_base64 (both reuse one output string across lines):
    independent Python oracles on the real binaries."""
    rng = c.rng
    for _ in range(25 if c.tier == "quick" else 250):
        docs = []
        for _ in range(rng.randrange(1, 7)):
            kind = rng.random()
            if kind < 0.25:
                docs.append(b"")
            elif kind < 0.5:
                docs.append(bytes(rng.choice(b"ab\t\n \xc3\xa9") for _ in range(rng.randrange(1, 30))))
            elif kind < 0.75:
                docs.append(bytes(rng.randrange(256) for _ in range(rng.randrange(1, 12))))      # mostly invalid UTF-8
            else:
                docs.append("".join(rng.choice("xyz\u20ac\U0001f600\n\t") for _ in range(rng.randrange(1, 15))).encode("utf-8"))
        inp = b"".join(pyb64.b64encode(d) + b"\n" for d in docs)
        c.count(("b64-line-tools", inp), nontrivial=True, bucket="base64_number+remove_invalid_utf8_base64")
        # base64_number: each non-empty line of each document (tabs -> spaces) + TAB + 0-based document number
        st, out, err = run_tool([repo_bin("base64_number")], inp, timeout=20)
        want = b""
        for i, d in enumerate(docs):
            for l in d.replace(b"\t", b" ").split(b"\n"):
                if l:
                    want += l + b"\t" + str(i).encode() + b"\n"
        if st != 0 or out != want:
            c.violation("base64_number: documents %r gave %r (status %s), expected %r" % (docs, out[:200], st, want[:200]),
                        {"op": "base64_number", "input_hex": hexs(inp), "output_hex": hexs(out), "expected_hex": hexs(want), "status": st})
        # remove_invalid_utf8_base64: a line is kept iff its document is well-formed UTF-8, else replaced by an empty base64 line
        st, out, err = run_tool([repo_bin("remove_invalid_utf8_base64")], inp, timeout=20)
        want = b""
        for d in docs:
            try:
                d.decode("utf-8", "strict")
                want += pyb64.b64encode(d) + b"\n"
            except UnicodeDecodeError:
                want += b"\n"
        if st != 0 or out != want:
            c.violation("remove_invalid_utf8_base64: documents %r gave %r (status %s), expected %r" % (docs, out[:200], st, want[:200]),
                        {"op": "remove_invalid_utf8_base64", "input_hex": hexs(inp), "output_hex": hexs(out), "expected_hex": hexs(want), "status": st})


def parse_range_args(c, drv):
    """command-line index arguments: model parse_range vs the real docenc (stdin = 12 one-line documents,
    empty cwd so that a non-index argument is a missing file)."""
    import tempfile, shutil, itertools
    exe = repo_bin("docenc")
    docs = [b"doc%d\n" % i for i in range(1, 13)]
    b64file = b"".join(pyb64.b64encode(d) + b"\n" for d in docs)
    pieces = ["", " ", "+", "0", "1", "2", "12", "13", "007", "-", "--", "x", "3-5", "5-3", "2-2", "1-", "-4", "\t9", "4 ", "18446744073709551616", "99999999999999999999", "1-18446744073709551615"]
    args = set()
    for a in pieces:
        for b in ("", "-", "-3", "- 3", "-+3", "-x", "-3x", "-0", "-12"):
            args.add(a + b)
    args = sorted(x for x in args if x and not (x[0] == "-" and len(x) > 1 and x[1] in "dq0n") and x != "-")
    if drv is None:
        return
    rc, mout, err = run_lines(drv, ["P " + hexs(a.encode()) for a in args])
    if len(mout) != len(args):
        c.broken.append("correspondence parse_range: driver failed rc=%s %s" % (rc, err[-200:]))
        return
    tmp = tempfile.mkdtemp(prefix="c09args-", dir="/var/tmp")
    try:
        bad = 0
        for a, mo in zip(args, mout):
            c.count(("parse_range", a), nontrivial=True, bucket="index-argument/" + mo.split()[0])
            if mo == "HUGE" or a.startswith("-"):
                continue      # the tool would allocate the whole range / the argument is an option
            st, out, err = run_tool([exe, "-d", "-q", a], b64file, timeout=20, cwd=tmp)
            if st == 0:
                got = "IDX " + ",".join(str(i + 1) for i, d in enumerate(docs) if d + b"\n" in out and out.count(d) > 0)
                sel = [int(x) for x in mo.split()[1].split(",")] if mo.startswith("IDX") else None
                want_out = b"".join(docs[i - 1] + b"\n" for i in sorted(set(sel)) if 1 <= i <= 12) if sel is not None else None
                ok = sel is not None and out == want_out
            elif st == 1 and b"Cannot understand" in err:
                ok = mo == "USAGE"
            elif st == 1:
                ok = mo == "FILE"
            else:
                ok = False
            c.cov["traces_validated_against_impl"] += 1
            if not ok:
                bad += 1
                if bad == 1:
                    c.broken.append("correspondence parse_range: argument %r: model=%s, docenc status %s stdout %r stderr %r" % (a, mo, st, out[:80], err[:120]))
        c.sample({"op": "index-argument", "arg": args[len(args) // 2], "model": mout[len(args) // 2]})
    finally:
        shutil.rmtree(tmp, ignore_errors=True)


def staged_stdin(c):
    """stdin arriving in fragments (a first fragment shorter than the 6-byte compression-magic probe,
    then a pause): the output must equal the run on the same bytes delivered at once."""
    exe = repo_bin("docenc")
    docs = [b"a\n", b"bc\nd\n", b"", b"\xc3\xa9 e\n"]
    b64file = b"".join(pyb64.b64encode(d) + b"\n" for d in docs)
    st0, dec0, _ = run_tool([exe, "-d", "-q"], b64file, timeout=20)
    for mode, argv, data in (("decode", [exe, "-d", "-q"], b64file), ("encode", [exe], dec0)):
        ref_st, ref_out, _ = run_tool(argv, data, timeout=20)
        for k in (1, 2, 3, 5, 6, 7):
            if k >= len(data):
                continue
            st, out, err = run_staged(argv, [data[:k], data[k:]], pause=0.25, timeout=20)
            c.count(("staged", mode, k), nontrivial=True, bucket="docenc-staged-stdin")
            if st != ref_st or out != ref_out:
                c.violation("docenc-staged-stdin: docenc %s with stdin delivered as %d bytes, a pause, then the rest gives %r (status %s) instead of %r (status %s)" % (
                    mode, k, out[:120], st, ref_out[:120], ref_st),
                    {"op": "docenc-staged", "mode": mode, "first_fragment": k, "input_hex": hexs(data), "output_hex": hexs(out), "expected_hex": hexs(ref_out), "status": st})


def replay(c):
    """bin/check C09 --replay file: re-run the recorded input on the current tree."""
    import json
    body = json.load(open(c.replay))
    r = body.get("replay") or {}
    ok, blog = build_repo(["hx_base64", "docenc"])
    print("replaying:", body.get("what", "")[:300])
    if r.get("op") in ("encode", "decode"):
        line = ("E " if r["op"] == "encode" else "D ") + r["input_hex"]
        rc, out, err = run_lines(hx_bin("hx_base64"), [line])
        print("  hx_base64 %s -> %s (recorded: %s)" % (line, out, r.get("impl")))
        bad = out and out[0] == r.get("impl")
    elif r.get("op") == "docenc-roundtrip":
        flag = ["-0"] if r["delim"] == 0 else []
        inp = bytes.fromhex(r["b64_input_hex"])
        st1, o1, _ = run_tool([repo_bin("docenc"), "-d", "-q"] + flag, inp)
        st2, o2, _ = run_tool([repo_bin("docenc")] + flag, o1)
        print("  docenc -d | docenc: %r -> %r" % (inp, o2))
        bad = o2 != inp
    elif r.get("op") == "docenc-index":
        flag = ["-0"] if r["delim"] == 0 else []
        inp = bytes.fromhex(r["b64_input_hex"])
        st, o, _ = run_tool([repo_bin("docenc"), "-d", "-q"] + flag + r["args"], inp)
        print("  docenc -d %s: %r expected %r" % (" ".join(r["args"]), o, bytes.fromhex(r["expected_hex"])))
        bad = o != bytes.fromhex(r["expected_hex"])
    else:
        print("  (no concrete input recorded; broken obligations: %s)" % body.get("broken_obligations"))
        bad = True
    if bad:
        print("VIOLATION property=C09 replay=%s" % c.replay)
        return 1
    print("replay no longer fails")
    return 0


def main(argv):
    c = Check("C09", argv)
    if c.replay:
        return replay(c)
    ok, blog = build_repo(["hx_base64", "docenc", "base64_number", "remove_invalid_utf8_base64"])
    if not ok:
        c.broken.append("build of /repo working tree failed: " + blog[-800:])
        return c.finish(rule="build failed")
    c.proofs()
    drv, dlog = build_driver("C09")
    impl = hx_bin("hx_base64")
    enc, dec = gen_cases(c)
    lines = ["E " + hexs(b) for b in enc] + ["D " + hexs(b) for b in dec]
    # the caller's output string is reused across calls (base64_number, remove_invalid_utf8_base64 do that)
    reuse = []
    for _ in range(300):
        a = pyb64.b64encode(bytes(c.rng.randrange(256) for _ in range(c.rng.randrange(0, 40))))
        b = pyb64.b64encode(bytes(c.rng.randrange(256) for _ in range(c.rng.randrange(0, 40))))
        if c.rng.random() < 0.2:
            a = a[:-1] + b"!"          # first call fails half-way
        reuse.append("D2 %s %s" % (hexs(a) or "-", hexs(b) or "-"))
        reuse.append("E2 %s %s" % (hexs(pyb64.b64decode(b)) or "-", hexs(a[:7]) or "-"))
        c.count(("reuse", a, b), nontrivial=True, bucket="reuse-output-string")
    for b in enc:
        c.count(("E", b), nontrivial=len(b) > 0, bucket="encode/len%3=" + str(len(b) % 3))
    for b in dec:
        ff = first_foreign(b)
        c.count(("D", b), nontrivial=len(b) > 0, bucket="decode/" + ("foreign" if ff is not None else "no-foreign"))
    c.sample({"op": "E", "hex": hexs(enc[300])})
    c.sample({"op": "D", "bytes": dec[5].decode("latin1")})
    c.sample({"op": "D", "bytes": repr(dec[-1])})

    # --- correspondence: extracted model vs implementation
    if drv is None:
        c.broken.append("extraction/driver build failed: " + dlog[-600:])
    else:
        correspond(c, "base64 model vs preprocess/base64.cc", drv, impl, lines + reuse)

    # --- direct property oracles on the implementation (the search)
    rc, out, err = run_lines(impl, lines)
    if len(out) != len(lines):
        c.broken.append("harness hx_base64 died: rc=%s %s" % (rc, err[-300:]))
    else:
        for b, o in zip(enc, out[:len(enc)]):
            want = "OK " + hexs(pyb64.b64encode(b))
            if o != want:
                c.violation("encode-not-rfc4648: base64_encode(%s) gave %s, RFC 4648 says %s" % (hexs(b), o, want),
                            {"op": "encode", "input_hex": hexs(b), "impl": o, "expected": want})
        for b, o in zip(dec, out[len(enc):]):
            ff = first_foreign(b)
            if ff is not None:
                if o.startswith("OK"):
                    c.violation("foreign-byte-accepted: byte 0x%02x at offset %d (before any '=') decoded as data: decode(%r) = %s" % (b[ff], ff, b, o),
                                {"op": "decode", "input_hex": hexs(b), "foreign_byte": "0x%02x" % b[ff], "impl": o,
                                 "how": "printf '<input>\\n' | docenc -d  (or harness hx_base64: D <hex>)"})
            else:
                # is it (a pad-stripped form of) a canonical encoding?  then must round trip
                core = b.split(b"=")[0]
                try:
                    raw = pyb64.b64decode(core + b"=" * (-len(core) % 4), validate=True) if len(core) % 4 != 1 else None
                except Exception:
                    raw = None
                if raw is not None and pyb64.b64encode(raw).rstrip(b"=") == core and b in (
                        pyb64.b64encode(raw), core, pyb64.b64encode(raw)[:-1] if pyb64.b64encode(raw).endswith(b"==") else core):
                    if o != "OK " + hexs(raw):
                        c.violation("roundtrip: decode(%r) gave %s expected %s" % (b, o, hexs(raw)),
                                    {"op": "decode", "input_hex": hexs(b), "impl": o, "expected_hex": hexs(raw)})
    docenc_tool(c, drv)
    b64_line_tools(c)
    parse_range_args(c, drv)
    staged_stdin(c)
    from coqchk import thorough_coqchk
    thorough_coqchk(c)
    return c.finish(level="proof",
                    rule="encode: all byte strings of length 0-2 exhaustively + random/boundary strings to 4 KiB; decode: canonical encodings with 0..2 pads removed, every byte value inserted/substituted at every offset of encodings of 0-6 bytes, two-byte corruptions at a block boundary, pad-only strings, random bytes; docenc: random and targeted document sequences (CR at line ends, CR-only lines, empty documents, NUL/newline content) for both separators through `docenc -d | docenc`, index lists with duplicates, overlapping ranges, out-of-range and 0, arbitrary bytes into both modes (model correspondence only). distinct = distinct non-empty inputs",
                    assumptions=["util::Exception from base64_decode = error; std::length_error from reserve() = error",
                                 "bytes are modelled as Z in [0,256); `int val` as 32-bit two's complement wrap (g++ behaviour)"])


if __name__ == "__main__":
    sys.exit(main(sys.argv[1:]))
