"""C05 -- cache, foldfilter and b64filter never deadlock and always complete in order.

Proof side: Wrap/WrapDefs.v (one transition system for feeder / queue / stream buffer / two bounded
pipes / child with buffering policy / collector) with `no reachable stuck state` proved for the
enqueue-before-write order, for all capacities, policies, line lengths, flush points, inputs and
interleavings; the order each tool uses is regenerated from its source on every run.
Tie: (1) the extracted transition system is explored exhaustively for small parameters with the
parameters of each tool (model-level cross-check of the theorem / witness of its failure);
(2) the real binaries are run with scripted children (harness/children/child.py) on inputs below and
above the pipe capacity, the stream buffer and the flush interval; their PREPROCESS_VERIF traces must
be paths of the extracted transition system; (3) direct oracle: no run may hang (timeout = violation
with the input as replay), output must be complete and in order, exit status 0."""
import base64
import os
import sys
import tempfile
import time
from concurrent.futures import ThreadPoolExecutor

sys.path.insert(0, os.path.join(os.path.dirname(os.path.abspath(__file__)), "..", "tools"))
from checklib import *  # noqa

CHILD = os.path.join(VERIF, "harness", "children", "child.py")
SCRATCH = os.path.join(os.path.dirname(BUILD_ROOT.rstrip("/")), "scratch-run") if BUILD_ROOT.startswith("/var/tmp/") else "/var/tmp/verif-scratch-run"


def answer(line, mode):
    if mode == "early":
        return b"<early>"
    return line if mode == "echo" else b"<" + line.upper() + b">"


def spec_cache(data, mode):
    lines = data.split(b"\n")
    if lines and lines[-1] == b"":
        lines.pop()
    first = {}
    out = []
    for l in lines:
        if l not in first:
            first[l] = answer(l, mode)
        out.append(first[l])
    return b"".join(o + b"\n" for o in out)


def spec_b64(data, mode):
    out = []
    lines = data.split(b"\n")
    if lines and lines[-1] == b"":
        lines.pop()
    for l in lines:       # an empty line is an EMPTY document: the child gets one empty line for it
        doc = base64.b64decode(l)
        trailing = doc.endswith(b"\n")
        body = doc[:-1] if trailing else doc
        ans = b"\n".join(answer(x, mode) for x in body.split(b"\n"))
        if trailing:
            ans += b"\n"
        out.append(base64.b64encode(ans))
    return b"".join(o + b"\n" for o in out)


def check_fold(data, out, mode):
    """foldfilter: with the byte-copying child the output is the input; with the transforming child
    removing the brackets and lower-casing gives back the input (inputs are lower case, no brackets)."""
    if mode == "echo":
        return out == data
    if mode == "early":      # used with a width larger than every line: one piece, one answer per line
        return out == b"<early>\n" * data.count(b"\n")
    return out.replace(b"<", b"").replace(b">", b"").lower() == data


def gen_inputs(c):
    """(name, bytes-recipe) pairs; recipes are python expressions stored in replay files."""
    rng = c.rng
    words = [b"alpha", b"beta", b"gamma delta", b"x", b"the quick brown fox, jumps over: the lazy dog. again and again", b"", b"z" * 300]
    small = b"".join(rng.choice(words) + b"\n" for _ in range(12))
    I = [("small", small),
         ("empty", b""),
         ("one", b"a\n"),
         ("dups", b"".join(rng.choice([b"k1", b"k2", b"k3"]) + b"\n" for _ in range(200))),
         # an empty first answer whose key recurs (cache's string pool must not hand out NULL for it)
         ("emptyfirst", b"\n\na\n\nb\n\n"),
         # more records than any plausible bound of the hand-off queue, for children that answer only after
         # reading everything (the queue must be unbounded: the feeder may not block on the collector)
         ("records20000", b"".join(b"r%d\n" % i for i in range(20000))),
         ("lines700", b"".join(b"row %d %s\n" % (i % 450, b"w" * (i % 17)) for i in range(700))),
         ("lines5000", b"".join(b"line %d %s\n" % (i % 1300, b"w" * (i % 7)) for i in range(5000))),
         ("distinct9000", b"".join(b"d%d\n" % i for i in range(9000))),
         ("long70k", b"y" * 70000 + b"\n"),
         ("long200k", b"x" * 200000 + b"\n"),
         ("long200k-mid", b"a\n" + b"x" * 200000 + b"\nb\n" + b"x" * 200000 + b"\n"),
         # a long line followed by a longer one: the second is incomplete when the reader's 1 MiB buffer is full and
         # starts in its first half but not at offset 0
         ("long300k-900k", b"p" * 300000 + b"\n" + b"q" * 900000 + b"\n"),
         ("long500k-600k-700k", b"p" * 500000 + b"\n" + b"q" * 600000 + b"\n" + b"r" * 700000 + b"\n"),
         ("mix", b"".join((b"q" * rng.choice((1, 50, 5000, 9000, 70000))) + b" %d\n" % i for i in range(25))),
         # line lengths at the case splits of the model/code: stream buffer 8192 (buffered vs direct write),
         # pipe capacity 65536, both pipes together 131072 (with the newline: -1, 0, +1 around each)
         ("edges", b"".join(b"e" * (n + d) + b"\n" for n in (8191, 8192, 65535, 65536, 131071, 131072) for d in (-1, 0, 1)))]
    if c.tier == "thorough":
        I.append(("big", b"".join(b"r%d %s\n" % (i % 50000, b"v" * (i % 211)) for i in range(300000))))
        I.append(("long2m", b"m" * 2000000 + b"\n"))
    return I


def to_b64_docs(data, rng, single=False):
    """group the lines of data into documents and base64 them (one per line)"""
    lines = data.split(b"\n")
    if lines and lines[-1] == b"":
        lines.pop()
    docs = []
    i = 0
    while i < len(lines):
        k = 1 if single else rng.choice((1, 1, 2, 3, 10, 400))
        doc = b"\n".join(lines[i:i + k]) + (b"\n" if rng.random() < 0.7 else b"")
        if doc == b"":
            doc = b"\n"
        docs.append(base64.b64encode(doc))
        i += k
    return b"".join(d + b"\n" for d in docs)


def run_case(exe, args, data, timeout, stages=None, from_file=False):
    """runs the wrapper; returns (status, stdout, trace_text)"""
    os.makedirs(SCRATCH, exist_ok=True)
    tf = tempfile.NamedTemporaryFile(dir=SCRATCH, prefix="trace-", delete=False)
    env = dict(os.environ)
    fd = tf.fileno()
    env["PREPROCESS_VERIF_TRACE_FD"] = str(fd)
    try:
        stdin_file = None
        if from_file:     # stdin is a REGULAR FILE: the reader takes its mmap path
            stdin_file = tempfile.NamedTemporaryFile(dir=SCRATCH, prefix="stdin-", delete=False)
            stdin_file.write(data)
            stdin_file.close()
            stdin_file = open(stdin_file.name, "rb")
        p = subprocess.Popen([exe] + args, stdin=stdin_file if from_file else subprocess.PIPE, stdout=subprocess.PIPE, stderr=subprocess.PIPE,
                             env=env, pass_fds=(fd,), start_new_session=True)
        try:
            if stages:
                import threading

                def feed():
                    try:
                        for k, chunk in enumerate(stages):
                            if k:
                                time.sleep(1.5)
                            p.stdin.write(chunk)
                            p.stdin.flush()
                        p.stdin.close()
                    except Exception:
                        pass
                th = threading.Thread(target=feed)
                th.start()
                import signal as _sig
                killed = []

                def _kill():
                    killed.append(1)
                    try:
                        os.killpg(p.pid, _sig.SIGKILL)
                    except Exception:
                        p.kill()
                wd = threading.Timer(timeout, _kill)
                wd.start()
                out = p.stdout.read()
                err = p.stderr.read()
                p.wait()
                wd.cancel()
                th.join()
                if killed:
                    raise subprocess.TimeoutExpired(exe, timeout)
            elif from_file:
                out, err = p.communicate(None, timeout=timeout)
            else:
                out, err = p.communicate(data, timeout=timeout)
            status = p.returncode
        except subprocess.TimeoutExpired:
            import signal
            try:
                os.killpg(p.pid, signal.SIGKILL)
            except Exception:
                p.kill()
            if p.stdin is not None and p.stdin.closed:
                p.stdin = None        # communicate() already closed it (empty input): do not flush it again
            try:
                out, err = p.communicate(timeout=10)
            except Exception:
                out, err = b"", b""
            status = "timeout"
        tf.flush()
        with open(tf.name, "rb") as f:
            trace = f.read().decode("ascii", "replace")
    finally:
        tf.close()
        os.unlink(tf.name)
        if from_file and stdin_file is not None:
            stdin_file.close()
            os.unlink(stdin_file.name)
    return status, out, trace, err


def main(argv):
    c = Check("C05", argv)
    ok, blog = build_repo(["cache", "foldfilter", "b64filter"])
    if not ok:
        c.broken.append("build of repo working tree failed: " + blog[-800:])
        return c.finish(rule="build failed")
    c.proofs(extra_trusted=["harness/children/child.py (scripted children); kernel pipes assumed FIFO byte channels with blocking read/write",
                            "trace replay in ocaml/C05_driver.ml (maps PREPROCESS_VERIF trace events to labels of the extracted transition system)"])
    log("t=%.1f proofs done" % (time.time() - c.t0))
    drv, dlog = build_driver("C05")
    log("t=%.1f driver built" % (time.time() - c.t0))
    if drv is None:
        c.broken.append("extraction/driver build failed: " + dlog[-600:])

    flush_rate = 4096
    # ---- (1) model-level exploration with each tool's parameters as read from its source
    if drv is not None:
        X = []
        for tool in ("cache", "fold", "b64"):
            for cin, cout in ((1, 1), (2, 1), (1, 2)):
                for child in ("echo=1 k=1 ilen=4", "echo=1 k=1 ilen=5", "echo=0 k=1 early=1 ilen=3 alen=2", "echo=0 k=1 ilen=2 alen=3", "echo=0 k=2 ilen=3 alen=1", "echo=0 k=3 ilen=2 alen=2", "echo=0 k=inf ilen=1 alen=2"):
                    for recs in ("1", "1,1", "1,0,1,1", "1,1,0,1") if tool == "cache" else ("1", "2,1", "1,3", "2,2"):
                        X.append("X tool=%s cin=%d cout=%d %s recs=%s limit=%d" % (tool, cin, cout, child, recs, 150000 if c.tier == "quick" else 1500000))
        with ThreadPoolExecutor(max_workers=6) as ex:
            parts = [X[i::6] for i in range(6)]
            outs = list(ex.map(lambda part: run_lines(drv, part, timeout=1200), parts))
        for part, (rc, out, err) in zip(parts, outs):
            if len(out) != len(part):
                c.broken.append("C05_driver exploration died: rc=%s %s" % (rc, err[-300:]))
                continue
            for line, o in zip(part, out):
                c.count(line, bucket="model-exploration")
                m = re.search(r"states=(\d+).* stuck=(\d+)(.*)", o)
                if not m:
                    c.broken.append("exploration output unparsable: %s -> %s" % (line, o))
                elif int(m.group(2)) > 0:
                    c.broken.append("exploration of the extracted transition system: reachable stuck state for %s : %s" % (line, o[:300]))
        rc, out, err = run_lines(drv, ["P"])
        c.sample({"tool parameters read from the source": out[0] if out else err})
        m = re.search(r"rate=(\d+)", out[0] if out else "")
        if m:
            flush_rate = int(m.group(1))

    log("t=%.1f exploration done" % (time.time() - c.t0))
    # ---- (2)+(3) real binaries with scripted children
    timeout = 10 if c.tier == "quick" else 60
    inputs = gen_inputs(c)
    children = ["eager", "block:7", "block:5000", "readall", "echo", "stdio"]
    cases = []
    for name, data in inputs:
        for mode in children:
            big = len(data) > 1000000
            if c.tier == "quick" and name in ("distinct9000", "lines5000") and mode in ("block:7", "stdio"):
                continue
            if name == "records20000" and mode not in ("readall", "block:5000"):
                continue
            if name.startswith("long") and "k-" in name and mode not in ("echo", "eager", "readall"):
                continue
            cases.append(("cache", [], name, data, mode))
            if b"x" * 1000 not in data or mode in ("echo", "eager", "readall"):
                cases.append(("foldfilter", ["-w", "40"] if not big else ["-w", "500000"], name, data, mode))
            if name.startswith("long"):
                cases.append(("foldfilter", ["-w", "300000"], name, data, mode))
            cases.append(("b64filter", [], name, to_b64_docs(data, c.rng, single=(name == "records20000")), mode))

    # empty documents for b64filter (an empty line is a document of zero bytes)
    for mode in ("eager", "readall", "echo"):
        cases.append(("b64filter", [], "emptydocs", b"\nYQo=\n\n\nYg==\n\n", mode))
    # the collector catches up with the feeder exactly at a multiple of the queue's 1023-entry page, then stdin
    # stalls, then more input (names starting with "staged:" are fed in two parts with a 1.5 s pause)
    first = b"".join(b"s%d\n" % i for i in range(4096)) + b"".join(b"s%d\n" % (i % 50) for i in range(5 * 1023 - 4096))
    rest = b"".join(b"t%d\n" % (i % 30) for i in range(200))
    staged = {"staged:5x1023": (first, rest)}
    cases.append(("cache", [], "staged:5x1023", first + rest, "echo"))
    cases.append(("cache", [], "staged:5x1023", first + rest, "eager"))
    # more repeats of one line than a bounded hand-off queue of 65536 entries could hold while the only line the
    # child must answer may still sit in cache's unflushed stream buffer (the feeder must never block on the queue)
    for mode in ("eager", "stdio", "echo"):
        cases.append(("cache", [], "repeat70001", b"same line\n" * 70001, mode))
    cases.append(("cache", [], "new5000+repeat100000", b"".join(b"n%d\n" % i for i in range(5000)) + b"".join(b"n%d\n" % (i % 7) for i in range(100000)), "eager"))
    # a child that answers every line at its FIRST byte + a piece larger than the 8 KiB stream buffer (its body is
    # written through, its newline stays buffered) + stdin stalling before end of input: the collector has emitted
    # everything and waits in foldfilter's in-loop peek() when the child finishes (audit H1)
    big = b"a" * 10000 + b"\n"
    for nm, parts in (("staged:early1", (big, b"")), ("staged:early3", (b"x\n" + big, big + b"y\n"))):
        staged[nm] = parts
        cases.append(("foldfilter", ["-w", "100000"], nm, parts[0] + parts[1], "early"))
        cases.append(("cache", [], nm, parts[0] + parts[1], "early"))
        cases.append(("b64filter", [], nm, to_b64_docs(parts[0] + parts[1], c.rng, single=True), "early"))
    for name, data in inputs[:6]:
        cases.append(("foldfilter", ["-w", "100000"], name, data, "early"))
        cases.append(("cache", [], name, data, "early"))
    # stdin as a regular file (mmap path of the reader) with a line longer than the 1 MiB window that does not
    # start at offset 0 (names starting with "file:")
    bigline = b"short first line\n" + b"z" * 1200000 + b"\nlast\n"
    cases.append(("cache", [], "file:bigline", bigline, "echo"))
    cases.append(("foldfilter", ["-w", "2000000"], "file:bigline", bigline, "echo"))
    cases.append(("foldfilter", ["-w", "40"], "file:bigline", bigline, "eager"))
    cases.append(("b64filter", [], "file:bigline", to_b64_docs(bigline, c.rng, single=True), "echo"))
    cases.append(("cache", [], "file:small", b"a\nb\na\n", "eager"))

    def do(case):
        tool, targs, name, data, mode = case
        st = staged.get(name)
        if st is not None and (tool == "b64filter" or st[0] + st[1] != data):
            st = (data, b"")          # converted input: everything, then a stall, then end of input
        return run_case(repo_bin(tool), targs + [CHILD, mode], data, timeout,
                        stages=st, from_file=name.startswith("file:"))

    with ThreadPoolExecutor(max_workers=6) as ex:
        results = list(ex.map(do, cases))
    log("t=%.1f %d real runs done" % (time.time() - c.t0, len(cases)))
    tlines, tcases = [], []
    for case, (status, out, trace, err) in zip(cases, results):
        tool, targs, name, data, mode = case
        desc = {"tool": tool, "args": targs, "child": "harness/children/child.py " + mode, "input": name,
                "input_bytes": len(data), "input_head_hex": hexs(data[:200]),
                "how": "python3 -c \"<recipe of input '%s' in checks/C05.py gen_inputs>\" | %s %s harness/children/child.py %s" % (name, tool, " ".join(targs), mode)}
        c.count((tool, name, mode), nontrivial=len(data) > 0, bucket="%s/%s" % (tool, mode))
        if status == "timeout":
            c.violation("hang: %s with child '%s' did not terminate within %ds on input '%s' (%d bytes)" % (tool, mode, timeout, name, len(data)), desc)
            continue
        if status != 0:
            c.violation("status: %s with child '%s' exited with %s on input '%s': %s" % (tool, mode, status, name, err[-200:].decode("latin1")), desc)
            continue
        if tool == "cache":
            good = out == spec_cache(data, mode)
        elif tool == "b64filter":
            good = out == spec_b64(data, mode)
        else:
            good = check_fold(data, out, mode)
        if not good:
            c.violation("output: %s with child '%s' produced incomplete or misordered output on input '%s' (%d bytes out)" % (tool, mode, name, len(out)), desc)
        if "peek-branch" in trace:
            c.cov["distribution"]["foldfilter in-loop peek taken"] = c.cov["distribution"].get("foldfilter in-loop peek taken", 0) + 1
        # cache: the periodic flush happens exactly every cache_flush_rate sends (rate regenerated from the source)
        if tool == "cache":
            sends = 0
            for ev in trace.split("\n"):
                if ev.startswith("F send"):
                    sends += 1
                elif ev.startswith("F flush"):
                    if sends != flush_rate:
                        c.broken.append("cache flushed after %d sends, source says every %d (input '%s')" % (sends, flush_rate, name))
                    sends = 0
            if sends >= flush_rate:
                c.broken.append("cache did not flush for %d sends, source says every %d (input '%s')" % (sends, flush_rate, name))
        # replay cost grows with events x lines (unary numbers in the extracted model): long traces are only checked above
        if trace.count("\n") <= 7000 and trace.count("C line") <= 1200:
            tl = "T tool=%s %s" % ({"cache": "cache", "foldfilter": "fold", "b64filter": "b64"}[tool], trace.replace("\n", ";"))
            tlines.append(tl)
            tcases.append(case)
    if drv is not None and tlines:
        parts = [list(range(i, len(tlines), 6)) for i in range(6)]
        with ThreadPoolExecutor(max_workers=6) as ex:
            outs = list(ex.map(lambda idxs: run_lines(drv, [tlines[i] for i in idxs], timeout=1200), parts))
        nrej = 0
        for idxs, (rc, out, err) in zip(parts, outs):
            if len(out) != len(idxs):
                c.broken.append("C05_driver trace replay died: rc=%s %s" % (rc, err[-300:]))
                continue
            for i, o in zip(idxs, out):
                tool, targs, name, data, mode = tcases[i]
                if o.startswith("ok terminal=true"):
                    c.cov["traces_validated_against_impl"] += 1
                else:
                    nrej += 1
                    if nrej <= 3:
                        c.broken.append("trace of the real %s (child %s, input '%s') is not a path of the extracted transition system: %s" % (tool, mode, name, o[:300]))
    log("t=%.1f %d traces replayed" % (time.time() - c.t0, len(tlines)))
    try:
        os.rmdir(SCRATCH)
    except OSError:
        pass
    return c.finish(level="proof",
                    rule="real cache/foldfilter/b64filter runs with scripted children (eager, blocks of 7 and 5000 lines, read-all-first, byte-copying, stdio-buffered) on inputs from empty to lines of 70k/200k bytes (longer than each pipe and than both pipes together), 5000-9000 lines (beyond the 4096-line flush interval and the stream buffer), duplicate-heavy input; each run: no hang, status 0, complete ordered output, trace is a path of the extracted transition system; plus exhaustive exploration of the extracted transition system for small parameters",
                    assumptions=["the wrapper's own stdout never blocks; stdin delivers all input and then end-of-file",
                                 "the child answers exactly one line per line and reads its stdin to the end; kernel pipes are FIFO byte channels",
                                 "the child holds no copy of the write end of its own stdin and does not close its stdout before end of input; kernel pipes deliver bytes in order"])


if __name__ == "__main__":
    sys.exit(main(sys.argv[1:]))
