"""C11 -- I/O errors and child failures are never reported as success."""
import os
import re
import resource
import signal
import sys
from concurrent.futures import ThreadPoolExecutor

sys.path.insert(0, os.path.join(os.path.dirname(os.path.abspath(__file__)), "..", "tools"))
from checklib import *  # noqa
import toolruns as tr

ERRNOS = {"EIO": 5, "ENOSPC": 28, "EPIPE": 32}
EINTR, EINVAL = 4, 22
# signals whose default action ends the process (Linux x86-64); 17-23 and 28 stop/continue/are ignored
FATAL_SIGNALS = [1, 2, 3, 4, 5, 6, 7, 8, 9, 10, 11, 12, 13, 14, 15, 16, 24, 25, 26, 27, 29, 30, 31, 34, 40, 64]
SCRATCH = os.path.join(BUILD_ROOT, "scratch-C11")
WORKERS = 8


def parse_log(path):
    ev = []
    try:
        for l in open(path):
            p = l.split()
            if len(p) == 5:
                ev.append((p[0], int(p[1]), int(p[2]), int(p[3]), int(p[4])))
    except FileNotFoundError:
        pass
    return ev


def collect(t, w, out):
    """everything the run made visible: stdout and the output files"""
    d = {"stdout": out}
    for o in t.outputs:
        p = os.path.join(w, o)
        d[o] = open(p, "rb").read() if os.path.exists(p) else None
    return d


def faulted_run(t, bindir, hx, fault=None, timeout=20):
    """One run of catalogue entry t under libvfault.  fault = (op, fdspec, k, errno) or None."""
    with tr.Scratch(SCRATCH, t) as w:
        env = dict(os.environ)
        env["LD_PRELOAD"] = os.path.join(hx, "libvfault.so")
        logp = os.path.join(w, "vfault.log")
        env["VFAULT_LOG"] = logp
        if fault:
            env.update({"VFAULT_OP": fault[0], "VFAULT_FD": str(fault[1]), "VFAULT_K": str(fault[2]), "VFAULT_ERRNO": str(fault[3])})
            if len(fault) > 4:
                env["VFAULT_STICKY"] = "1"
        rc, out, err = tr.run(t.argv(bindir, w, hx), t.stdin, timeout=timeout, env=env, cwd=w)
        return rc, collect(t, w, out), err, parse_log(logp)


def replay_of(t, bindir, hx, fault=None, extra=None):
    r = {"tool": t.label, "argv": t.argv("$BIN", "$W", "$HX"), "stdin_hex": hexs(t.stdin),
         "files_hex": {k: hexs(v) for k, v in t.files.items()}}
    if fault:
        r["fault"] = {"op": fault[0], "fd": fault[1], "k": fault[2], "errno": fault[3], "sticky": len(fault) > 4}
        r["how"] = ("cd $W && VFAULT_OP=%s VFAULT_FD=%s VFAULT_K=%s VFAULT_ERRNO=%s %sLD_PRELOAD=$HX/libvfault.so %s < stdin ; echo $?"
                    % (fault[0], fault[1], fault[2], fault[3], "VFAULT_STICKY=1 " if len(fault) > 4 else "", " ".join(t.argv("$BIN", "$W", "$HX"))))
    if extra:
        r.update(extra)
    return r


# ---------------------------------------------------------------------------
# Phase A: the k-th read/write/fsync/close on any data descriptor fails

def phase_faults(c, bindir, hx, model_cases, shard_cases):
    tools = tr.catalogue()
    errs = list(ERRNOS.items())
    jobs = []
    base = {}
    for t in tools:
        rc, outs, err, ev = faulted_run(t, bindir, hx)
        if rc != 0:
            c.broken.append("clean run of %s under the interposer exits %s: %s" % (t.label, rc, err[-200:]))
            continue
        base[t.label] = (outs, ev)
        for op in ("read", "write", "fsync", "close"):
            n = len([e for e in ev if e[0] == op])
            for k in range(1, n + 2):          # n+1: a fault point that is never reached (control)
                if c.tier == "thorough":
                    chosen = errs
                else:
                    chosen = [errs[(k + len(op)) % 3]] if k <= n else [errs[0]]
                for en, eno in chosen:
                    jobs.append((t, (op, "any", k, eno), "fatal"))
            # a failure that persists (disk stays full, pipe stays broken): every call from the k-th on fails
            if op == "write":
                for k in range(1, n + 1):
                    jobs.append((t, (op, "any", k, 28, "sticky"), "fatal"))
            # benign controls: EINTR is retried by read/write loops; fsync EINVAL is ignored by design
            if op in ("read", "write") and n and t.kind != "iostream":
                jobs.append((t, (op, "any", 1 + (c.rng.randrange(n)), EINTR), "benign"))
            if op == "fsync" and n:
                jobs.append((t, (op, "any", 1, EINVAL), "benign"))

    def work(j):
        t, fault, kind = j
        return j, faulted_run(t, bindir, hx, fault)

    with ThreadPoolExecutor(WORKERS) as ex:
        results = list(ex.map(work, jobs))
    for (t, fault, kind), (rc, outs, err, ev) in results:
        op, fd, k, eno = fault[:4]
        hit = [e for e in ev if e[0] == op and e[3] == -1 and e[4] == eno]
        base_outs, base_ev = base[t.label]
        bucket = "fault/%s/%s/%s" % (t.kind, op, "hit" if hit else "not-reached") if kind == "fatal" else "control/%s/%s" % (t.kind, op)
        c.count((t.label, fault), nontrivial=bool(hit), bucket=bucket)
        c.sample({"tool": t.label, "fault": fault, "status": rc, "fault_delivered": bool(hit)}, limit=4)
        if rc == "timeout":
            c.violation("hang-under-fault: %s did not terminate within the timeout when %s #%d failed with errno %d" % (t.label, op, k, eno),
                        replay_of(t, bindir, hx, fault, {"status": "timeout"}))
            continue
        if kind == "fatal" and hit and rc == 0:
            c.violation("io-error-exit-0: %s exits 0 although %s #%d on fd %d failed with errno %d" % (t.label, op, k, hit[0][1], eno),
                        replay_of(t, bindir, hx, fault, {"status": rc, "trace": ev[-8:]}))
        if rc == 0 and outs != base_outs:
            c.violation("exit-0-output-incomplete: %s exits 0 under fault %s but its output differs from the fault-free run" % (t.label, fault),
                        replay_of(t, bindir, hx, fault, {"status": rc, "got": {k_: hexs(v or b"") for k_, v in outs.items()},
                                                         "expected": {k_: hexs(v or b"") for k_, v in base_outs.items()}}))
        if kind == "benign" and rc != 0:
            c.broken.append("control: %s exits %s under benign fault %s (EINTR retry / ignored fsync errno): %s" % (t.label, rc, fault, err[-200:]))
        if kind == "fatal" and not hit and rc != 0:
            c.broken.append("control: %s exits %s although fault %s was never delivered: %s" % (t.label, rc, fault, err[-200:]))
        if len(fault) > 4:
            continue
        model_cases.append((t, fault, rc, ev, base_ev))
        if t.label == "shard":
            shard_cases.append((t, fault, rc, ev, base_ev, base_outs))
    return base


# ---------------------------------------------------------------------------
# Phase A2: stdout is a REGULAR FILE whose fsync fails (a write-back error surfacing at fsync), per descriptor:
# every fsync of fd 1 in turn, and "every fsync of fd 1" -- whatever was synced before on other descriptors
# (the wrappers first flush the pipe to their child: fsync -> EINVAL, ignored)

def phase_file_stdout(c, bindir, hx):
    jobs = []
    # util::FileStream syncs at every flush (FileWriter::flush); the iostream tools never fsync, so an error that the
    # OS reports only at fsync is invisible to them by design and not part of this phase
    tools = [t for t in tr.catalogue() if t.kind != "iostream"]

    def run_one(t, fault_env):
        with tr.Scratch(SCRATCH, t) as w:
            env = dict(os.environ)
            env["LD_PRELOAD"] = os.path.join(hx, "libvfault.so")
            logp = os.path.join(w, "vfault.log")
            env["VFAULT_LOG"] = logp
            env.update(fault_env)
            outp = os.path.join(w, "stdout.file")
            with open(outp, "wb") as f:
                rc, _, err = tr.run(t.argv(bindir, w, hx), t.stdin, timeout=20, env=env, cwd=w, stdout=f)
            return rc, open(outp, "rb").read(), err, parse_log(logp)

    clean = {}
    for t in tools:
        rc, out, err, ev = run_one(t, {})
        if rc != 0:
            c.broken.append("clean run of %s with a regular file on stdout exits %s" % (t.label, rc))
            continue
        if not out:
            continue                      # nothing is written to stdout (shard, dedupe -p): nothing to lose
        n1 = len([e for e in ev if e[0] == "fsync" and e[1] == 1])
        clean[t.label] = (out, n1)
        for eno in (5, 28):
            jobs.append((t, {"VFAULT_OP": "fsync", "VFAULT_FD": "1", "VFAULT_K": "1", "VFAULT_STICKY": "1", "VFAULT_ERRNO": str(eno)}, "every fsync of fd 1", eno))
            for k in range(1, n1 + 1):
                jobs.append((t, {"VFAULT_OP": "fsync", "VFAULT_FD": "1", "VFAULT_K": str(k), "VFAULT_ERRNO": str(eno)}, "fsync #%d of fd 1" % k, eno))

    def work(j):
        return j, run_one(j[0], j[1])

    with ThreadPoolExecutor(WORKERS) as ex:
        results = list(ex.map(work, jobs))
    for (t, fenv, desc, eno), (rc, out, err, ev) in results:
        delivered = [e for e in ev if e[0] == "fsync" and e[1] == 1 and e[3] == -1 and e[4] == eno]
        earlier = [e for e in ev if e[0] == "fsync" and e[1] != 1]
        c.count(("file-stdout", t.label, desc, eno), bucket="file-stdout/%s/%s" % (t.kind, "sticky" if "STICKY" in "".join(fenv) else "k-th"))
        rep = {"tool": t.label, "argv": t.argv("$BIN", "$W", "$HX"), "stdin_hex": hexs(t.stdin), "files_hex": {k: hexs(v) for k, v in t.files.items()},
               "status": rc, "stdout": "regular file", "fault": "%s fails with errno %d" % (desc, eno),
               "fsyncs_on_other_descriptors_before": [(e[1], e[3], e[4]) for e in earlier][:6], "fsync_calls_on_fd1_seen": len([e for e in ev if e[0] == "fsync" and e[1] == 1]),
               "how": "cd $W && %s LD_PRELOAD=$HX/libvfault.so %s < stdin > out.file; echo $?" % (" ".join("%s=%s" % kv for kv in sorted(fenv.items())), " ".join(t.argv("$BIN", "$W", "$HX")))}
        if rc == "timeout":
            c.violation("hang-under-fault: %s with stdout a regular file and %s failing" % (t.label, desc), rep)
        elif rc == 0 and "VFAULT_STICKY" in fenv:
            c.violation("io-error-exit-0: %s wrote %d bytes to a regular file on stdout and exits 0 although every fsync of that file fails with errno %d (%s)" % (
                t.label, len(clean[t.label][0]), eno, "the failing fsync was issued and ignored" if delivered else "the file was never synced: %d earlier fsync(s) on other descriptors" % len(earlier)), rep)
        elif rc == 0 and delivered:
            c.violation("io-error-exit-0: %s exits 0 although %s (regular file) failed with errno %d" % (t.label, desc, eno), rep)


# ---------------------------------------------------------------------------
# Phase B: real kernel failures (also reaches glibc stdio, which the interposer cannot)

def _limit_fsize(n):
    def f():
        signal.signal(signal.SIGXFSZ, signal.SIG_IGN)
        resource.setrlimit(resource.RLIMIT_FSIZE, (n, n))
    return f


def _ignore_sigpipe():
    signal.signal(signal.SIGPIPE, signal.SIG_IGN)


def big_iostream_tools(tier):
    """outputs of several stdio buffers (> 3 x 4096 bytes): a failed write that is NOT the last flush must still be reported.
    (mmhsum and order_independent_hash only ever print one line.)"""
    npar = 400 if tier == "thorough" else 150
    big_gw = b"<TEXT>\n" + b"".join(b"<P>\nparagraph %d of the story, padded with some more words to fill buffers\nsecond line\n</P>\n" % i for i in range(npar)) + b"</TEXT>\n"
    big_pu = b"".join(b"Hello World number %d\n" % i for i in range(900 if tier == "thorough" else 150))
    huge_pu = b"".join(b"Line %d of a text that is long enough to need many buffers of standard output\n" % i for i in range(4000))
    huge_gw = b"<TEXT>\n" + b"".join(b"<P>\nparagraph %d of the story, padded with some more words to fill buffers\nsecond line\n</P>\n" % i for i in range(4000)) + b"</TEXT>\n"
    return ([tr.Tool("process_unicode", ["--lower"], big_pu, kind="iostream", label="process_unicode-big"),
             tr.Tool("gigaword_unwrap", [], big_gw, kind="iostream", label="gigaword_unwrap-big")],
            [tr.Tool("process_unicode", ["--lower"], huge_pu, kind="iostream", label="process_unicode-300k"),
             tr.Tool("gigaword_unwrap", [], huge_gw, kind="iostream", label="gigaword_unwrap-300k")])


def phase_kernel(c, bindir, hx, base, kernel_cases):
    tools = [t for t in tr.catalogue() if t.label in base]
    # the iostream tools again with outputs of many stdio buffers
    for t in big_iostream_tools(c.tier)[1]:
        with tr.Scratch(SCRATCH, t) as w:
            rc, out, err = tr.run(t.argv(bindir, w, hx), t.stdin, cwd=w)
        if rc == 0 and len(out) > 3 * 4096:
            base[t.label] = ({"stdout": out}, [])
            tools.append(t)
        else:
            c.broken.append("large-output run of %s failed (rc=%s, %d bytes)" % (t.label, rc, len(out)))
    jobs = []
    for t in tools:
        full = base[t.label][0]["stdout"]
        if full:
            jobs.append((t, "devfull", None))
            jobs.append((t, "epipe", None))
            if len(full) > 20000:
                # every stdio buffer boundary +-1, and inside the first / a middle / the last buffer
                limits = sorted(set([0, 1, 4095, 4096, 4097, 8192, 12288, len(full) // 2, len(full) - 4097, len(full) - 4096, len(full) - 1, len(full)]
                                    + [k * 4096 for k in range(1, min(12, len(full) // 4096))]))
            else:
                limits = range(0, len(full) + 1) if (t.kind == "iostream" or c.tier == "thorough") else sorted(set([0, 1, len(full) // 2, len(full) - 1, len(full)]))
            for n in limits:
                jobs.append((t, "fsize", n))
        if t.reads_stdin:
            jobs.append((t, "stdin-dir", None))

    def work(j):
        t, kind, n = j
        with tr.Scratch(SCRATCH, t) as w:
            argv = t.argv(bindir, w, hx)
            if kind == "devfull":
                with open("/dev/full", "wb") as f:
                    rc, _, err = tr.run(argv, t.stdin, stdout=f, cwd=w)
                return j, rc, None, err
            if kind == "fsize":
                p = os.path.join(w, "stdout.bin")
                with open(p, "wb") as f:
                    rc, _, err = tr.run(argv, t.stdin, stdout=f, cwd=w, preexec_fn=_limit_fsize(n))
                return j, rc, open(p, "rb").read(), err
            if kind == "epipe":
                r, wr = os.pipe()
                os.close(r)
                try:
                    with os.fdopen(wr, "wb") as f:
                        rc, _, err = tr.run(argv, t.stdin, stdout=f, cwd=w, preexec_fn=_ignore_sigpipe)
                except BrokenPipeError:
                    rc, err = -signal.SIGPIPE, b""
                return j, rc, None, err
            if kind == "stdin-dir":
                fd = os.open(w, os.O_RDONLY)
                try:
                    rc, out, err = tr.run(argv, cwd=w, stdin_file=fd)
                finally:
                    os.close(fd)
                return j, rc, out, err

    with ThreadPoolExecutor(WORKERS) as ex:
        results = list(ex.map(work, jobs))
    for (t, kind, n), rc, got, err in results:
        full = base[t.label][0]["stdout"]
        bucket = "kernel/%s/%s" % (t.kind, kind)
        c.count((t.label, kind, n), bucket=bucket)
        rep = {"tool": t.label, "argv": t.argv("$BIN", "$W", "$HX"), "stdin_hex": hexs(t.stdin), "files_hex": {k: hexs(v) for k, v in t.files.items()}, "status": rc}
        if t.kind == "iostream" and rc != "timeout" and len(full) <= 4096:
            kernel_cases.append((t, kind, n, rc, len(full), len(t.stdin)))
        if rc == "timeout":
            c.violation("hang-under-fault: %s hangs with %s" % (t.label, kind), dict(rep, fault=kind))
        elif kind == "devfull" and rc == 0:
            c.violation("io-error-exit-0: %s > /dev/full (every write fails with ENOSPC) exits 0" % t.label,
                        dict(rep, fault="stdout=/dev/full", how="%s < stdin > /dev/full; echo $?" % " ".join(rep["argv"])))
        elif kind == "epipe" and rc == 0:
            c.violation("io-error-exit-0: %s writing to a pipe without reader (EPIPE, SIGPIPE ignored) exits 0" % t.label,
                        dict(rep, fault="stdout=closed pipe", how="(trap '' PIPE; %s < stdin | true); echo ${PIPESTATUS[0]}" % " ".join(rep["argv"])))
        elif kind == "fsize":
            if n < len(full) and rc == 0:
                c.violation("io-error-exit-0: %s exits 0 although stdout accepted only %d of %d bytes (EFBIG at RLIMIT_FSIZE=%d)" % (t.label, len(got), len(full), n),
                            dict(rep, fault="RLIMIT_FSIZE=%d, SIGXFSZ ignored, stdout regular file" % n,
                                 how="(trap '' XFSZ; ulimit -f <blocks>; %s < stdin > out); echo $?   # byte-exact limit via setrlimit" % " ".join(rep["argv"])))
            if rc == 0 and got != full:
                c.violation("exit-0-output-incomplete: %s exits 0 but the file holds %d of %d bytes" % (t.label, len(got), len(full)), dict(rep, fault="RLIMIT_FSIZE=%d" % n))
            if n >= len(full) and rc != 0:
                c.broken.append("control: %s exits %s with RLIMIT_FSIZE=%d >= output size %d: %s" % (t.label, rc, n, len(full), err[-200:]))
        elif kind == "stdin-dir" and rc == 0:
            c.violation("io-error-exit-0: %s exits 0 although every read of stdin fails with EISDIR (stdin is a directory)" % t.label,
                        dict(rep, fault="stdin=directory", how="%s < /var/tmp; echo $?" % " ".join(rep["argv"])))


# ---------------------------------------------------------------------------
# Phase B2: the k-th read / write system call of the iostream tools fails (strace fault injection:
# reaches glibc's stdio, which an LD_PRELOAD interposer cannot)

STRACE_RE = re.compile(r"^\d+\s+(read|write)\((\d+),.*\)\s+=\s+(-?\d+)(?:\s+(E[A-Z]+))?")
ERRNO_NAMES = {5: "EIO", 28: "ENOSPC", 32: "EPIPE"}


def strace_run(t, bindir, hx, inject=None, timeout=30):
    with tr.Scratch(SCRATCH, t) as w:
        logp = os.path.join(w, "strace.log")
        cmd = ["strace", "-f", "-e", "trace=read,write", "-o", logp]
        if inject:
            cmd += ["-e", "inject=%s:error=%s:when=%d" % inject]
        rc, out, err = tr.run(cmd + t.argv(bindir, w, hx), t.stdin, timeout=timeout, cwd=w)
        calls = []
        try:
            for l in open(logp, errors="replace"):
                m = STRACE_RE.match(l)
                if m:
                    calls.append((m.group(1), int(m.group(2)), int(m.group(3)), m.group(4) or ""))
        except FileNotFoundError:
            pass
        return rc, out, calls


def phase_strace(c, bindir, hx, strace_cases):
    if not shutil.which("strace"):
        c.assumptions.append("strace not installed: the iostream tools are only exercised with whole-descriptor failures (/dev/full, RLIMIT_FSIZE, closed pipe)")
        return
    tools = [t for t in tr.catalogue() if t.kind == "iostream"]
    # outputs of several stdio buffers: a failure in an EARLY write(2) followed by successful ones must still be reported
    tools += big_iostream_tools(c.tier)[0]
    jobs = []
    clean = {}
    strace_failures = []
    for t in tools:
        rc, out, calls = strace_run(t, bindir, hx)
        if rc != 0 or not calls:
            strace_failures.append("%s rc=%s calls=%d" % (t.label, rc, len(calls)))
            continue
        clean[t.label] = (out, calls)
        for op in ("read", "write"):
            idx = 0
            for name, fd, ret, e in calls:
                if name != op:
                    continue
                idx += 1
                if (op == "read" and fd == 0) or (op == "write" and fd == 1):
                    for eno in ((5, 28, 32) if op == "write" else (5,)):
                        jobs.append((t, (op, ERRNO_NAMES[eno], idx), eno))

    if strace_failures and not clean:
        # ptrace is not available in this environment: say so instead of failing the check
        c.assumptions.append("strace could not trace any tool here (%s): the k-th-system-call injection for the iostream tools was skipped; "
                             "they are still exercised with /dev/full, RLIMIT_FSIZE at every byte, closed pipes and a directory on stdin" % strace_failures[0])
        return
    for f in strace_failures:
        c.broken.append("strace: clean run failed: " + f)

    def work(j):
        t, inject, eno = j
        return j, strace_run(t, bindir, hx, inject)

    with ThreadPoolExecutor(WORKERS) as ex:
        results = list(ex.map(work, jobs))
    for (t, inject, eno), (rc, out, calls) in results:
        op, ename, idx = inject
        injected = [x for x in calls if x[0] == op and x[2] == -1 and x[3] == ename]
        c.count(("strace", t.label, inject), nontrivial=bool(injected), bucket="strace/%s/%s" % (op, "hit" if injected else "not-reached"))
        rep = {"tool": t.label, "argv": t.argv("$BIN", "$W", "$HX"), "stdin_hex": hexs(t.stdin), "status": rc,
               "fault": "the %d-th %s system call of the process fails with %s" % (idx, op, ename),
               "how": "strace -f -e trace=read,write -e inject=%s:error=%s:when=%d %s < stdin; echo $?" % (op, ename, idx, " ".join(t.argv("$BIN", "$W", "$HX")))}
        if rc == "timeout":
            c.violation("hang-under-fault: %s with %s" % (t.label, rep["fault"]), rep)
            continue
        if injected and rc == 0:
            c.violation("io-error-exit-0: %s exits 0 although %s" % (t.label, rep["fault"]), rep)
        if rc == 0 and out != clean[t.label][0]:
            c.violation("exit-0-output-incomplete: %s exits 0 under '%s' with different output" % (t.label, rep["fault"]), rep)
        strace_cases.append((t, inject, rc, calls, clean[t.label][1]))


# ---------------------------------------------------------------------------
# Phase C: the three wrappers (+ warc_parallel) with scripted dying children

WRAPPERS = [
    ("cache", [], b"a\nb\na\nc\nd\n"),
    ("cache", ["-k", "1", "-t", ","], b"k1,x\nk2,y\nk1,z\n"),
    ("foldfilter", ["-w", "10"], b"hello world, this is a long line\nshort\n\nlast one here\n"),
    ("foldfilter", ["-w", "6", "-s"], b"aa bb cc dd ee\nzz\n"),
    ("b64filter", [], b"YQpiCg==\nYw==\nCg==\nZAplCmY=\n"),
]


def child_lines(bindir, hx, name, args, stdin):
    """how many lines does the wrapper send to / expect from its child on this input"""
    with tr.Scratch(SCRATCH) as w:
        rc, out, err = tr.run([os.path.join(bindir, name)] + args + ["sh", "-c", "tee '%s/childin'" % w], stdin, cwd=w)
        data = open(os.path.join(w, "childin"), "rb").read()
        return rc, out, data.count(b"\n")


def phase_children(c, bindir, hx, child_cases):
    vchild = os.path.join(hx, "vchild")
    jobs = []
    expect = {}
    for wi, (name, args, stdin) in enumerate(WRAPPERS):
        rc, out, L = child_lines(bindir, hx, name, args, stdin)
        if rc != 0 or L == 0:
            c.broken.append("clean wrapper run failed: %s %s rc=%s" % (name, args, rc))
            continue
        expect[wi] = (out, L)
        codes_all = range(0, 256) if (wi in (0, 2, 4)) else [0, 1, 2, 126, 127, 128, 255]
        for code in codes_all:
            jobs.append((wi, -1, "exit:%d" % code, "drain"))
        sigs = FATAL_SIGNALS if (c.tier == "thorough" or wi in (0, 2, 4)) else [9, 15, 11, 13]
        for s in sigs:
            jobs.append((wi, -1, "sig:%d" % s, "drain"))
        for k in range(0, L + 1):
            for term in ["exit:0", "exit:1", "exit:255", "sig:9", "sig:15", "sig:11"] + (["sig:%d" % s for s in (1, 2, 6, 13)] if c.tier == "thorough" else []):
                for mode in ("nodrain", "drain"):
                    jobs.append((wi, k, term, mode))
    # warc_parallel: child failures abort the reaper
    wp_in = tr.WARC1 + tr.WARC2

    def work(j):
        wi, k, term, mode = j
        name, args, stdin = WRAPPERS[wi]
        argv = [os.path.join(bindir, name)] + args + [vchild, str(k), term, mode]
        rc, out, err = tr.run(argv, stdin, timeout=20)
        return j, rc, out, err

    with ThreadPoolExecutor(WORKERS) as ex:
        results = list(ex.map(work, jobs))
    for (wi, k, term, mode), rc, out, err in results:
        name, args, stdin = WRAPPERS[wi]
        exp_out, L = expect[wi]
        kind, val = term.split(":")
        val = int(val)
        point = "all" if k == -1 else ("k=L" if k == L else "premature")
        c.count((wi, k, term, mode), bucket="child/%s/%s/%s" % (name, kind, point))
        rep = {"wrapper": name, "argv": [name] + args + ["$HX/vchild", str(k), term, mode], "stdin_hex": hexs(stdin),
               "child": {"answers_lines": "all" if k == -1 else k, "of": L, "terminates": term, "mode": mode}, "status": rc,
               "how": "printf '<stdin>' | %s %s $HX/vchild %d %s %s; echo $?" % (name, " ".join(args), k, term, mode)}
        c.sample(rep, limit=6)
        if not args or name != "cache":
            child_cases.append((name, L, k, term, mode, rc))
        if rc == "timeout":
            c.violation("wrapper-hang: %s does not terminate when its child (%s after %s answers, %s) ends" % (name, term, k, mode), rep)
            continue
        if kind == "sig" and rc == 0:
            c.violation("child-signal-exit-0: %s exits 0 although its child was killed by signal %d after answering %s of %d lines" % (name, val, "all" if k == -1 else k, L), rep)
        if kind == "exit" and val != 0 and rc == 0:
            c.violation("child-failure-exit-0: %s exits 0 although its child exited with code %d after %s answers" % (name, val, k), rep)
        if kind == "exit" and k == -1:
            if rc != val:
                c.violation("child-code-not-propagated: child answered everything and exited %d; %s returned %s" % (val, name, rc), rep)
            elif out != exp_out:
                c.violation("wrapper-output-wrong: child answered everything, %s output differs from the clean run" % name, rep)
        if k != -1 and k < L and rc == 0:
            c.violation("premature-eof-exit-0: %s exits 0 although its child stopped after %d of %d answers (%s, %s)" % (name, k, L, term, mode), rep)
    # the child dies while the feeder is still blocked writing megabytes into its stdin (EPIPE / SIGPIPE path)
    big = {"cache": b"".join(b"line number %d\n" % i for i in range(150000)),
           "foldfilter": b"".join(b"some words, to be folded: %d and more text here\n" % i for i in range(60000)),
           "b64filter": b"".join(b"bGluZQo=\n" for i in range(200000))}
    bjobs = []
    for name, args in (("cache", []), ("foldfilter", ["-w", "20"]), ("b64filter", [])):
        for k, term in ((0, "exit:0"), (0, "exit:3"), (0, "sig:9"), (7, "exit:0"), (7, "sig:15"), (2000, "sig:9"), (2000, "exit:1"), (2000, "sig:13")):
            bjobs.append((name, args, k, term))

    def bwork(j):
        name, args, k, term = j
        rc, out, err = tr.run([os.path.join(bindir, name)] + args + [vchild, str(k), term, "nodrain"], big[name], timeout=30)
        return j, rc

    with ThreadPoolExecutor(WORKERS) as ex:
        bresults = list(ex.map(bwork, bjobs))
    for (name, args, k, term), rc in bresults:
        c.count(("big", name, k, term), bucket="child/%s/%s/feeder-blocked" % (name, term.split(":")[0]))
        rep = {"wrapper": name, "argv": [name] + args + ["$HX/vchild", str(k), term, "nodrain"], "stdin_desc": "%d bytes of lines (see phase_children in checks/C11.py)" % len(big[name]),
               "child": {"answers_lines": k, "terminates": term, "mode": "nodrain"}, "status": rc}
        if rc == "timeout":
            c.violation("wrapper-hang: %s does not terminate when its child (%s after %d answers) dies while the feeder is still writing" % (name, term, k), rep)
        elif rc == 0:
            c.violation("premature-eof-exit-0: %s exits 0 although its child ended (%s) after %d answers of a %d-byte input" % (name, term, k, len(big[name])), rep)
    # the child cannot even be started (execvp fails: ENOENT, EACCES, a directory): never success, never a hang
    with tr.Scratch(SCRATCH) as w:
        noexec = os.path.join(w, "not-executable")
        open(noexec, "w").write("#!/bin/sh\ncat\n")
        os.chmod(noexec, 0o644)
        for name, args, stdin in [(n, a, i) for (n, a, i) in WRAPPERS if not a or n != "cache"] + [("warc_parallel", ["-j", "2"], wp_in)]:
            for prog in ("/nonexistent/program", noexec, w, ""):
                rc, out, err = tr.run([os.path.join(bindir, name)] + args + [prog], stdin, timeout=20)
                c.count(("exec-fails", name, prog), bucket="child/%s/exec-fails" % name)
                rep = {"wrapper": name, "argv": [name] + args + [prog if prog in ("", "/nonexistent/program") else os.path.basename(prog)], "stdin_hex": hexs(stdin), "status": rc,
                       "child": "cannot be executed"}
                if rc == "timeout":
                    c.violation("wrapper-hang: %s does not terminate when its child cannot be executed (%r)" % (name, prog), rep)
                elif rc == 0:
                    c.violation("child-failure-exit-0: %s exits 0 although its child %r could not be executed" % (name, prog), rep)
    # the wrapper process already owns an unrelated child (inherited through exec) that exits 0 before the captive child ends:
    # the status that counts is the captive child's
    sjobs = []
    for name, args, stdin in [(n, a, i) for (n, a, i) in WRAPPERS if not a or n != "cache"]:
        for tail, want in (("exit 7", 7), ("exit 0", 0), ("kill -9 $$", "nonzero"), ("kill -15 $$", "nonzero")):
            sjobs.append((name, args, stdin, tail, want))

    def swork(j):
        name, args, stdin, tail, want = j
        inner = " ".join([os.path.join(bindir, name)] + args + ["sh", "-c", "'cat; sleep 0.6; %s'" % tail])
        rc, out, err = tr.run(["sh", "-c", "sleep 0.1 & exec " + inner], stdin, timeout=20)
        return j, rc

    with ThreadPoolExecutor(WORKERS) as ex:
        sresults = list(ex.map(swork, sjobs))
    for (name, args, stdin, tail, want), rc in sresults:
        c.count(("sibling", name, tail), bucket="child/%s/unrelated-sibling-exits-first" % name)
        rep = {"wrapper": name, "stdin_hex": hexs(stdin), "status": rc,
               "how": "sh -c \"sleep 0.1 & exec %s %s sh -c 'cat; sleep 0.6; %s'\" < stdin; echo $?" % (name, " ".join(args), tail),
               "child": "answers everything, then after 0.6 s: " + tail, "sibling": "an unrelated child of the same process (sleep 0.1) exits 0 first"}
        if rc == "timeout":
            c.violation("wrapper-hang: %s with an unrelated sibling child" % name, rep)
        elif want == "nonzero" and rc == 0:
            c.violation("child-signal-exit-0: %s exits 0 although its child killed itself (%s); an unrelated child of the wrapper had exited 0 earlier" % (name, tail), rep)
        elif isinstance(want, int) and rc != want:
            c.violation("child-code-not-propagated: child exited with %d, %s returned %s (an unrelated child of the wrapper process exited 0 earlier)" % (want, name, rc), rep)
    # warc_parallel (not one of the three, same Launch/wait machinery): failures must not be success
    for term in ["exit:0", "exit:3", "sig:9", "sig:15"]:
        rc, out, err = tr.run([os.path.join(bindir, "warc_parallel"), "-j", "2", vchild, "-1", term, "drain"], wp_in, timeout=20)
        c.count(("warc_parallel", term), bucket="child/warc_parallel/" + term.split(":")[0])
        rep = {"wrapper": "warc_parallel", "argv": ["warc_parallel", "-j", "2", "$HX/vchild", "-1", term, "drain"], "stdin_hex": hexs(wp_in), "status": rc}
        if rc == "timeout":
            c.violation("wrapper-hang: warc_parallel with child %s" % term, rep)
        elif term != "exit:0" and rc == 0:
            c.violation("child-failure-exit-0: warc_parallel exits 0 with child %s" % term, rep)
        elif term == "exit:0" and rc != 0:
            c.broken.append("control: warc_parallel with a well-behaved child exits %s" % rc)


# ---------------------------------------------------------------------------
# Phase D: extracted Coq model vs implementation

BENIGN_FSYNC = (30, 22, 95)    # EROFS EINVAL ENOTSUP: cross-checked against Gen/Src_exit.v through the model runs


class _Stop(Exception):
    pass


# read-size plans that sit on the case splits of BufferedStream::write (fits / spill then fits / spill then direct write)
BOUNDARY_PLANS = [[8192], [8193], [8191, 1], [8191, 2], [4096, 4096], [4096, 4096, 1], [1, 8192], [1, 8191], [9000], [10000], [8192, 8192], [8192, 1, 8192],
                  [5000, 5000], [8190, 1, 1, 1], [10000, 10000, 10000], [8192, 9000], [1] * 6, [8191, 9999]]


def gen_tool_case(rng, big, plan=None):
    """Generate an oracle for the mini filter tool of hx_exit by lazily simulating the
    order of its system calls (generation only: results are never taken from here)."""
    chunk = rng.choice([4096, 10000]) if big else rng.choice([1, 3, 64, 4096])
    fin = rng.choice([b"", b"END", b"\n"]) if not big else rng.choice([b"", b"END", bytes(rng.randrange(256) for _ in range(8200))])
    nreads = rng.randrange(0, 5)
    sizes = [rng.randrange(1, chunk + 1) if big else rng.randrange(1, min(chunk, 40) + 1) for _ in range(nreads)]
    if plan is not None:
        chunk, sizes, nreads = 10000, list(plan), len(plan)
        fin = rng.choice([b"", b"E", bytes(8192), bytes(8193)])
    est = 2 * nreads + 8
    fail_at = rng.choice([None, None] + list(range(est)))
    fail_errno = rng.choice([5, 28, 32])
    outs = []
    state = {"buf": 0, "reads": list(sizes)}

    def sysc(op, req):
        idx = len(outs)
        if fail_at == idx:
            outs.append("e:%d" % fail_errno)
            return ("err", fail_errno)
        r = rng.random()
        if op == "read":
            if r < 0.12:
                outs.append("e:4")
                return ("err", 4)
            if state["reads"]:
                n = min(state["reads"].pop(0), req)
                data = bytes(rng.randrange(256) for _ in range(n))
                outs.append("o:%d:%s" % (n, data.hex()))
                return ("ok", n)
            outs.append("o:0:")
            return ("ok", 0)
        if op == "write":
            if r < 0.12:
                outs.append("e:4")
                return ("err", 4)
            if r < 0.35 and req > 1:
                n = rng.choice([1, req - 1, rng.randrange(1, req)])
                outs.append("o:%d:" % n)
                return ("ok", n)
            if r < 0.38:
                outs.append("o:0:")
                return ("ok", 0)
            outs.append("o:%d:" % req)
            return ("ok", req)
        if op == "fsync":
            if r < 0.3:
                e = rng.choice(BENIGN_FSYNC)
                outs.append("e:%d" % e)
                return ("err", e)
            outs.append("o:0:")
            return ("ok", 0)
        outs.append("o:0:")
        return ("ok", 0)

    def write_or_throw(size):
        while size:
            k, v = sysc("write", size)
            if k == "err":
                if v == 4:
                    continue
                raise _Stop()
            if v < 1:
                raise _Stop()
            size -= v

    def bs_write(n):
        if state["buf"] + n <= 8192:
            state["buf"] += n
            return
        if state["buf"]:
            write_or_throw(state["buf"])
            state["buf"] = 0
        if n <= 8192:
            state["buf"] = n
        else:
            write_or_throw(n)

    try:
        while True:
            while True:
                k, v = sysc("read", chunk)
                if k == "err" and v == 4:
                    continue
                break
            if k == "err":
                raise _Stop()
            if v == 0:
                break
            bs_write(v)
        bs_write(len(fin))
        if state["buf"]:
            write_or_throw(state["buf"])
        k, v = sysc("fsync", 0)
        if k == "err" and v not in BENIGN_FSYNC:
            raise _Stop()
        sysc("close", 0)
        sysc("close", 0)
    except _Stop:
        pass
    # sometimes append junk outcomes that are never consumed, sometimes truncate (perfect OS afterwards)
    if rng.random() < 0.2 and outs:
        outs = outs[:rng.randrange(len(outs))]
    return "T %d %s | %s" % (chunk, fin.hex() or "-", " ".join(outs)), fin


def parse_trace(line):
    """'exit:0 op fd req ret errno data;...' -> (status, [(op, fd, req, ret, errno, data)])"""
    st, _, rest = line.partition(" ")
    ev = []
    for item in rest.split(";"):
        p = item.split()
        if len(p) >= 5:
            ev.append((p[0], int(p[1]), int(p[2]), int(p[3]), int(p[4]), p[5] if len(p) > 5 else "-"))
    return st, ev


def harness_oracle(c, line, fin, out):
    """The property itself, read off the real code's trace (no model involved)."""
    st, ev = parse_trace(out)
    failed = [e for e in ev if (e[3] < 0 and not (e[0] in ("read", "write") and e[4] == 4) and not (e[0] == "fsync" and e[4] in BENIGN_FSYNC))
              or (e[0] == "write" and 0 <= e[3] < 1)]
    # outcome tokens in order give the data each successful read delivered
    toks = line.split("|", 1)[1].split()
    reads = [e for e in ev if e[0] == "read"]
    delivered = b""
    ti = 0
    for e in ev:
        tok = toks[ti] if ti < len(toks) else None
        ti += 1
        if e[0] == "read" and e[3] > 0 and tok and tok.startswith("o:"):
            delivered += bytes.fromhex(tok.split(":")[2])[:e[3]]
    accepted = b"".join(bytes.fromhex(e[5])[:e[3]] for e in ev if e[0] == "write" and e[1] == 1 and e[3] > 0 and e[5] != "-")
    rep = {"harness": "hx_exit", "case": line[:2000], "impl": out[:2000]}
    if failed and st == "exit:0":
        c.violation("io-error-exit-0(library): util::FileStream mini tool exits 0 although %s on fd %d failed (errno %d)" % (failed[0][0], failed[0][1], failed[0][4]), rep)
    if st == "exit:0" and accepted != delivered + fin:
        c.violation("exit-0-output-incomplete(library): mini tool exits 0, OS accepted %d bytes, tool produced %d" % (len(accepted), len(delivered + fin)), rep)
    if not failed and st != "exit:0":
        c.violation("spurious-failure(library): mini tool status %s without any failed system call" % st, rep)
    return bool(failed)


def acts_of_clean_trace(ev):
    """Clean per-syscall trace -> script of library calls (tokens of the S protocol)."""
    acts = []
    i = 0
    while i < len(ev):
        op, fd = ev[i][0], ev[i][1]
        if op == "write" and i + 2 < len(ev) and ev[i + 1][0] == "fsync" and ev[i + 1][1] == fd and ev[i + 2][0] == "close" and ev[i + 2][1] == fd:
            acts.append("x:%d:%d" % (fd, ev[i][2]))
            i += 3
        elif op == "fsync" and i + 1 < len(ev) and ev[i + 1][0] == "close" and ev[i + 1][1] == fd:
            acts.append("x:%d:0" % fd)
            i += 2
        elif op == "read":
            acts.append("r:%d:%d" % (fd, ev[i][2]))
            i += 1
        elif op == "write":
            acts.append("w:%d:%d" % (fd, ev[i][2]))
            i += 1
        elif op == "fsync":
            acts.append("f:%d" % fd)
            i += 1
        else:
            acts.append("c:%d" % fd)
            i += 1
    return acts


def outcome_tokens(ev):
    return ["o:%d" % e[3] if e[3] >= 0 else "e:%d" % e[4] for e in ev]


def fmt_events(ev):
    return "".join("%s %d %d %d %d;" % e[:5] for e in ev)


def rc_to_status(rc):
    if rc == "timeout":
        return "timeout"
    return "exit:%d" % rc if rc >= 0 else "sig:%d" % (-rc)


SINGLE_THREADED = lambda t: t.kind == "util" and t.name != "shard"


ERRNO_BY_NAME = {"EIO": 5, "ENOSPC": 28, "EPIPE": 32, "EINTR": 4, "EFBIG": 27, "EISDIR": 21}


def phase_model(c, drv, hx, model_cases, kernel_cases, child_cases, strace_cases=(), shard_cases=()):
    impl = os.path.join(hx, "hx_exit")
    # D1: library level -- mini tool on the real util::PartialRead / util::FileStream vs tool_run
    n_small, n_big = (500, 60) if c.tier == "quick" else (6000, 600)
    lines, fins = ["CONST"], [b""]
    for i in range(n_small + n_big):
        l, fin = gen_tool_case(c.rng, big=i >= n_small)
        lines.append(l)
        fins.append(fin)
    for plan in BOUNDARY_PLANS:
        for rep in range(2 if c.tier == "quick" else 12):
            l, fin = gen_tool_case(c.rng, True, plan=plan)
            lines.append(l)
            fins.append(fin)
    # the read loops of util/file.cc: ReadOrEOF / ReadOrThrow with short reads, EINTR, early EOF and errors at every step
    for i in range(150 if c.tier == "quick" else 2000):
        rng = c.rng
        amount = rng.choice([0, 1, 2, 6, 6, 17, 100])
        remaining, outs = amount, []
        for step in range(rng.randrange(0, 6)):
            r = rng.random()
            if r < 0.15:
                outs.append("e:4")
            elif r < 0.25:
                outs.append("e:%d" % rng.choice([5, 28, 32]))
                break
            elif r < 0.4 or remaining <= 0:
                outs.append("o:0:")
                break
            else:
                n = rng.randrange(1, remaining + 1)
                outs.append("o:%d:%s" % (n, bytes(rng.randrange(256) for _ in range(n)).hex()))
                remaining -= n
        lines.append("%s %d | %s" % (rng.choice(["ROE", "ROT"]), amount, " ".join(outs)))
        fins.append(b"")
    for code in range(256):
        lines.append("WAIT exit:%d" % code)
        fins.append(b"")
    for s in FATAL_SIGNALS:
        lines.append("WAIT sig:%d" % s)
        fins.append(b"")
    correspond(c, "ExitDefs (tool_run, Wait, constants) vs util/file.cc + buffered_stream.hh + captive_child.cc via hx_exit", drv, impl, lines)
    rc, out, err = run_lines(impl, lines)
    if len(out) == len(lines):
        for l, fin, o in zip(lines, fins, out):
            if l.startswith("T "):
                failed = harness_oracle(c, l, fin, o)
                c.count(l, bucket="library/%s/%s" % ("big" if int(l.split()[1]) >= 4096 and len(l) > 9000 else "small", "failed-call" if failed else "clean"))
            elif l.startswith("RO"):
                c.count(l, bucket="library/read-loops")
                st, ev = parse_trace(o.split(" R:")[0])
                bad = [e for e in ev if e[3] < 0 and e[4] != 4]
                toks = l.split("|", 1)[1].split()
                delivered = b"".join(bytes.fromhex(tk.split(":")[2]) for tk, e in zip(toks, ev) if tk.startswith("o:") and e[3] > 0)
                if bad and st == "exit:0":
                    c.violation("io-error-exit-0(library): %s returns normally although read failed with errno %d" % (l.split()[0], bad[0][4]), {"harness": "hx_exit", "case": l[:600], "impl": o[:400]})
                if st == "exit:0" and " R:" in o and bytes.fromhex(o.split(" R:")[1]) != delivered:
                    c.violation("read-loop-wrong-data(library): %s returned bytes that are not the concatenation of what the reads delivered" % l.split()[0], {"harness": "hx_exit", "case": l[:600], "impl": o[:400]})
            elif l.startswith("WAIT"):
                c.count(l, bucket="library/Wait")
                kind, v = l.split()[1].split(":")
                v = int(v)
                if (kind == "sig" or v != 0) and int(o) % 256 == 0:
                    c.violation("wait-value-zero-status: preprocess::Wait returns %s for a child that ended with %s; as an exit status that is 0" % (o, l.split()[1]),
                                {"harness": "hx_exit", "case": l, "impl": o})
                if kind == "exit" and int(o) != v:
                    c.violation("wait-value-wrong: preprocess::Wait returns %s for a child that exited with %d" % (o, v), {"harness": "hx_exit", "case": l, "impl": o})
        c.sample({"library_case": lines[3][:300], "impl": out[3][:300]}, limit=8)
    else:
        c.broken.append("harness hx_exit died: rc=%s %s" % (rc, err[-300:]))

    # D2: every single-threaded util-stream executable under every injected fault: replay the
    #     logged outcomes through script_run (script = shape of the fault-free run)
    mlines, expect, meta = [], [], []
    for t, fault, rc, ev, base_ev in model_cases:
        if not SINGLE_THREADED(t) or rc == "timeout":
            continue
        catches = t.name == "commoncrawl_dedupe"
        acts = acts_of_clean_trace(base_ev)
        mlines.append("S %d %s | %s" % (1 if catches else 0, " ".join(acts), " ".join(outcome_tokens(ev))))
        expect.append((rc_to_status(rc), fmt_events(ev)))
        meta.append((t, fault, catches))
    # D3: iostream tools under real kernel failures
    for t, kind, n, rc, full_len, in_len in kernel_cases:
        reads = ["o:%d" % in_len, "o:0"] if t.name in ("process_unicode", "mmhsum") and in_len else (["o:0"] if t.name in ("process_unicode", "mmhsum") else [])
        if kind == "stdin-dir":
            if t.name not in ("process_unicode", "mmhsum"):
                continue
            orc = ["e:21"]
        elif kind == "devfull":
            orc = reads + ["e:28"]
        elif kind == "epipe":
            orc = reads + ["e:32"]
        else:
            orc = reads + (["o:%d" % n] if 0 < n < full_len else []) + (["e:27"] if n < full_len else [])
        mlines.append("I %s - %d | %s" % (t.name, full_len, " ".join(orc)))
        expect.append((rc_to_status(rc), None))
        meta.append((t, (kind, n), False))
    # D4: wrappers with scripted children
    for name, L, k, term, mode, rc in child_cases:
        lines_answered = L if k == -1 else min(k, L)
        # one record per input line, one child line each (the scripted child answers line by line)
        mlines.append("WM %s %s %d 0 %s | |" % (name, ",".join(["1"] * L) or "-", lines_answered, term))
        expect.append((rc_to_status(rc), "class"))
        meta.append((name, (k, term, mode), False))
    # D6: shard (threads): per output descriptor the order of calls is deterministic; replay each descriptor's
    #     sub-trace through threaded_file_run (lines routed to it = content of the file in the fault-free run)
    for t, fault, rc, ev, base_ev, base_outs in shard_cases:
        if rc == "timeout":
            continue
        for fd, oname in zip((3, 4), t.outputs):
            content = base_outs.get(oname) or b""
            lens = [len(x) for x in content.split(b"\n")[:-1]]
            sub = [e for e in ev if e[1] == fd]
            mlines.append("F %d %s | %s" % (fd, ",".join(str(x) for x in lens) or "-", " ".join(outcome_tokens(sub))))
            hit_here = any(e[3] < 0 for e in sub)
            expect.append((rc_to_status(rc) if hit_here or rc == 0 else None, fmt_events(sub)))
            meta.append((t, ("shard-fd", fd) + tuple(fault), "prefix"))
    # D7: the three wrappers under faults on their own data descriptors (child's stdin, stdout): each thread's
    #     sub-trace replayed through wrapper_io_run
    for t, fault, rc, ev, base_ev in model_cases:
        if t.kind != "wrapper" or t.name == "warc_parallel" or rc == "timeout" or fault[0] == "read":
            continue
        child_fds = [e[1] for e in base_ev if e[0] == "write" and e[1] != 1]
        if not child_fds:
            continue
        cfd = child_fds[0]
        bad_ev = [e for e in ev if e[3] < 0 and not (e[4] == 4 and e[0] == "write") and not (e[0] == "fsync" and e[4] in BENIGN_FSYNC)]
        if any(e[1] not in (cfd, 1) for e in bad_ev):
            continue          # the fault hit a descriptor of Launch / the child's stdout reader: outside this model
        sent = sum(e[2] for e in base_ev if e[0] == "write" and e[1] == cfd)
        recs = sum(e[2] for e in base_ev if e[0] == "write" and e[1] == 1)
        fsub = [e for e in ev if e[1] == cfd and e[0] != "read"]
        csub = [e for e in ev if e[1] == 1 and e[0] != "read"]
        mlines.append("WR %s %d %d %d 1 1 exit:0 | %s | %s" % (t.name, cfd, sent, recs, " ".join(outcome_tokens(fsub)), " ".join(outcome_tokens(csub))))
        expect.append((rc_to_status(rc), (fmt_events(fsub), fmt_events(csub), [e[1] for e in bad_ev])))
        meta.append((t, ("wrapper-io",) + tuple(fault), "wrapper-io"))
    # D8: Launch's status pipe: runs in which the injected fault hit the read of the close-on-exec pipe
    for t, fault, rc, ev, base_ev in model_cases:
        if t.kind != "wrapper" or t.name == "warc_parallel" or rc == "timeout" or fault[0] != "read":
            continue
        st_reads = [e for e in base_ev if e[0] == "read" and e[2] == 4]
        if not st_reads:
            continue
        sfd = st_reads[0][1]
        sub = [e for e in ev if e[0] == "read" and e[1] == sfd]
        if not any(e[3] < 0 for e in sub):
            continue
        mlines.append("L 1 %d | %s" % (sfd, " ".join(outcome_tokens(sub))))
        expect.append((rc_to_status(rc), fmt_events(sub)))
        meta.append((t, ("launch",) + tuple(fault), False))
    # D9: the three wrappers, a failing read on the wrapper's own stdin or on the child's stdout pipe (not Launch's status pipe):
    #     the thread's sub-trace is the oracle of that thread in wrapper_main_run (status only: the record logic is instantiated
    #     by the needs of the catalogue input; for foldfilter the split into pieces is not recomputed here, any needs that the
    #     echoing child satisfies give the same status)
    needs_by_tool = {"cache": [1, 1, 0, 1], "b64filter": [2, 1], "foldfilter": [4, 1]}
    for t, fault, rc, ev, base_ev in model_cases:
        if t.kind != "wrapper" or t.name not in needs_by_tool or rc == "timeout" or fault[0] != "read":
            continue
        st_reads = [e for e in base_ev if e[0] == "read" and e[2] == 4]
        sfd = st_reads[0][1] if st_reads else None
        badr = [e for e in ev if e[0] == "read" and e[3] < 0 and e[4] != 4]
        if not badr or badr[0][1] == sfd:
            continue
        bfd = badr[0][1]
        child_fds = [e[1] for e in base_ev if e[0] == "write" and e[1] != 1]
        cfd = child_fds[0] if child_fds else -1
        fsub = [e for e in ev if e[1] in (0, cfd)] if bfd == 0 else []
        csub = [e for e in ev if e[1] in (bfd, 1)] if bfd != 0 else []
        needs = needs_by_tool[t.name]
        mlines.append("WM %s %s %d 0 exit:0 | %s | %s" % (t.name, ",".join(str(x) for x in needs), sum(needs),
                                                           " ".join(outcome_tokens(fsub)), " ".join(outcome_tokens(csub))))
        expect.append((rc_to_status(rc), "class"))
        meta.append((t, ("wrapper-read", bfd) + tuple(fault), False))
        c.cov["wrapper_read_fault_replays"] = c.cov.get("wrapper_read_fault_replays", 0) + 1
    # D5: iostream tools under strace injection: the segmentation of stdout into write(2) calls is the one observed in the
    #     fault-free run; the outcomes are the ones strace reports for the faulted run
    for t, inject, rc, calls, clean_calls in strace_cases:
        if rc == "timeout":
            continue
        uses_cin = t.name in ("process_unicode", "mmhsum")
        segs = [c_[2] for c_ in clean_calls if c_[0] == "write" and c_[1] == 1 and c_[2] > 0]
        outs = []
        evs = []
        if uses_cin:
            for name, fd, ret, e in calls:
                if name == "read" and fd == 0:
                    outs.append("o:%d" % ret if ret >= 0 else "e:%d" % ERRNO_BY_NAME.get(e, 5))
        elif inject[0] == "read":
            continue      # gigaword_unwrap / order_independent_hash read through util::FilePiece (covered by script_run)
        for name, fd, ret, e in calls:
            if name == "write" and fd == 1:
                outs.append("o:%d" % ret if ret >= 0 else "e:%d" % ERRNO_BY_NAME.get(e, 5))
        mlines.append("I %s - %s | %s" % (t.name, ",".join(str(x) for x in segs) or "-", " ".join(outs)))
        expect.append((rc_to_status(rc), None))
        meta.append((t, ("strace",) + inject, False))
    rc, out, err = run_lines(drv, mlines)
    if len(out) != len(mlines):
        c.broken.append("model driver produced %d lines for %d cases: %s" % (len(out), len(mlines), err[-300:]))
        return
    bad = []
    for l, o, (est, eev), m in zip(mlines, out, expect, meta):
        st, _, tr = o.partition(" ")
        if m[2] == "wrapper-io":
            mf, _, mc = tr.partition(" | ")
            rf, rcol, badfds = eev
            # the thread whose call failed must match exactly; the other one may have been cut short by the abort
            okf = (mf == rf) if (m[0] and badfds and badfds[0] != 1) or st == "exit:0" else mf.startswith(rf)
            okc = (mc == rcol) if (badfds and badfds[0] == 1) or st == "exit:0" else mc.startswith(rcol)
            if not (st == est and okf and okc):
                bad.append((l, o, est, "%s | %s" % (rf, rcol), m))
            continue
        if m[2] == "prefix":
            # another thread / descriptor may have ended the process first: the real sub-trace is then a prefix of the model's
            ok = (est is None or st == est) and (tr == eev if est is not None else tr.startswith(eev))
            if not ok:
                bad.append((l, o, est, eev, m))
            continue
        if eev == "class":
            ok = (st == est) if est.startswith("exit") else st.startswith("sig")
        elif eev is None:
            ok = st == est
        else:
            if m[2]:     # catch-all main: unwinding continues after the failure; compare up to the model's trace
                ok = st == est and eev.startswith(tr)
            else:
                # after the failing call the real process may still run cleanup (stack unwinding up to a
                # noexcept frame closes descriptors) before std::terminate: only close() calls are tolerated
                extra = eev[len(tr):] if eev.startswith(tr) else None
                ok = st == est and extra is not None and (extra == "" or (st != "exit:0" and all(x.startswith("close ") for x in extra.split(";") if x)))
        if not ok:
            bad.append((l, o, est, eev, m))
    c.cov["traces_validated_against_impl"] += len(mlines)
    if bad:
        l, o, est, eev, m = min(bad, key=lambda b: len(b[0]))
        c.broken.append("correspondence ExitDefs (script_run / iostream_run / wrapper_main_run) vs real executables: %d of %d runs disagree; smallest: %s %s: model=%r real=%r %r" % (
            len(bad), len(mlines), getattr(m[0], "label", m[0]), m[1], o[:300], est, (eev or "")[:300]))


def main(argv):
    c = Check("C11", argv)
    ok, blog = build_repo(["all"])
    if not ok:
        c.broken.append("build of the repo working tree failed: " + blog[-800:])
        return c.finish(rule="build failed")
    c.proofs(extra_trusted=["harness/libvfault.c (LD_PRELOAD fault injector), harness/children/vchild.c (scripted child), harness/hx_exit.cc",
                            "Linux wait-status encoding and errno/signal numbers (tabulated in tools/gen/g_exit.py, compared with the compiled values through hx_exit CONST)"])
    drv, dlog = build_driver("C11")
    bindir = os.path.dirname(repo_bin("x"))
    hx = os.path.dirname(hx_bin("x"))
    model_cases, kernel_cases, child_cases, strace_cases = [], [], [], []
    shard_cases = []
    base = phase_faults(c, bindir, hx, model_cases, shard_cases)
    phase_file_stdout(c, bindir, hx)
    phase_kernel(c, bindir, hx, base, kernel_cases)
    phase_strace(c, bindir, hx, strace_cases)
    phase_children(c, bindir, hx, child_cases)
    if drv is None:
        c.broken.append("extraction/driver build failed: " + dlog[-600:])
    else:
        phase_model(c, drv, hx, model_cases, kernel_cases, child_cases, strace_cases, shard_cases)
    if c.tier == "thorough":
        coqchk(c)
    shutil.rmtree(SCRATCH, ignore_errors=True)
    if os.environ.get("VERIF_DEBUG"):
        for what, obj, found in c.violations:
            log("  [debug] " + what[:200])
    return c.finish(
        level="proof",
        rule="(A) every catalogue invocation of all 24 executables under libvfault: for each of read/write/fsync/close, EVERY k up to the number of such calls in the fault-free run (+1 unreachable control) fails with EIO/ENOSPC/EPIPE (quick: one errno per k, rotating; thorough: all three), plus EINTR / fsync-EINVAL controls; "
             "(A2) stdout a regular file: every fsync of fd 1 in turn and all of them fail with EIO/ENOSPC (per-descriptor enumeration, independent of earlier fsyncs on pipes); (B) real kernel failures: stdout=/dev/full, stdout=pipe without reader, RLIMIT_FSIZE=n for every n up to the output size (iostream tools; boundary values for the others), stdin=directory; "
             "(B2) strace fault injection (reaches glibc stdio): EVERY read(0) and EVERY write(1) system call of the four iostream tools fails with EIO / ENOSPC / EPIPE; (C) cache/foldfilter/b64filter (+warc_parallel) with scripted children: every exit code 0..255 and every fatal signal after answering everything, and for every k in 0..L answers: exit 0/1/255, SIGKILL/SIGTERM/SIGSEGV, draining stdin or not; "
             "(D) extracted Coq model vs real code: random oracles for the util::FileStream mini tool (short writes, EINTR, zero writes, ignored fsync errnos, failures at every call index, outputs crossing the 8 KiB buffer), Wait for all exit codes and fatal signals, and replay of every (A)/(B)/(C) run through script_run / iostream_run / wrapper_main_run. "
             "distinct = distinct (tool, fault) / (wrapper, child behaviour) / oracle cases in which the fault was delivered",
        assumptions=["an exception leaving main or a thread, or thrown by a destructor, ends the process through std::terminate -> abort (SIGABRT); checked on every faulted run",
                     "the oracle model of the OS: one outcome per system call in program order, perfect behaviour after the scripted prefix",
                     "glibc stdio issues write(2) for some segmentation of the output (theorem quantifies over all segmentations); libstdc++ turns a failed fwrite/fflush into badbit",
                     "wrappers: when the child ends, its pipe ends are closed (no other process holds them), so the collector sees EOF; feeder writes fail with EPIPE/SIGPIPE",
                     "Linux wait status encoding: exit code in bits 8-15, terminating signal in bits 0-6"])


if __name__ == "__main__":
    sys.exit(main(sys.argv[1:]))
