"""C11 -- I/O errors and child failures are never reported as success."""
import os
import resource
import signal
import sys
from concurrent.futures import ThreadPoolExecutor

sys.path.insert(0, os.path.join(os.path.dirname(os.path.abspath(__file__)), "..", "tools"))
from checklib import *  # noqa
import toolruns as tr

ERRNOS = {"EIO": 5, "ENOSPC": 28, "EPIPE": 32}
EINTR, EINVAL = 4, 22
# signals whose default action ends the process (Linux x86-64); 17-23 and 28 stop/continue/are ignored
FATAL_SIGNALS = [1, 2, 3, 4, 5, 6, 7, 8, 9, 10, 11, 12, 13, 14, 15, 16, 24, 25, 26, 27, 29, 30, 31, 34, 40, 64]
SCRATCH = os.path.join(BUILD_ROOT, "scratch-C11")
WORKERS = 8


def parse_log(path):
    ev = []
    try:
        for l in open(path):
            p = l.split()
            if len(p) == 5:
                ev.append((p[0], int(p[1]), int(p[2]), int(p[3]), int(p[4])))
    except FileNotFoundError:
        pass
    return ev


def collect(t, w, out):
    """everything the run made visible: stdout and the output files"""
    d = {"stdout": out}
    for o in t.outputs:
        p = os.path.join(w, o)
        d[o] = open(p, "rb").read() if os.path.exists(p) else None
    return d


def faulted_run(t, bindir, hx, fault=None, timeout=20):
    """One run of catalogue entry t under libvfault.  fault = (op, fdspec, k, errno) or None."""
    with tr.Scratch(SCRATCH, t) as w:
        env = dict(os.environ)
        env["LD_PRELOAD"] = os.path.join(hx, "libvfault.so")
        logp = os.path.join(w, "vfault.log")
        env["VFAULT_LOG"] = logp
        if fault:
            env.update({"VFAULT_OP": fault[0], "VFAULT_FD": str(fault[1]), "VFAULT_K": str(fault[2]), "VFAULT_ERRNO": str(fault[3])})
        rc, out, err = tr.run(t.argv(bindir, w, hx), t.stdin, timeout=timeout, env=env, cwd=w)
        return rc, collect(t, w, out), err, parse_log(logp)


def replay_of(t, bindir, hx, fault=None, extra=None):
    r = {"tool": t.label, "argv": t.argv("$BIN", "$W", "$HX"), "stdin_hex": hexs(t.stdin),
         "files_hex": {k: hexs(v) for k, v in t.files.items()}}
    if fault:
        r["fault"] = {"op": fault[0], "fd": fault[1], "k": fault[2], "errno": fault[3]}
        r["how"] = ("cd $W && VFAULT_OP=%s VFAULT_FD=%s VFAULT_K=%s VFAULT_ERRNO=%s LD_PRELOAD=$HX/libvfault.so %s < stdin ; echo $?"
                    % (fault[0], fault[1], fault[2], fault[3], " ".join(t.argv("$BIN", "$W", "$HX"))))
    if extra:
        r.update(extra)
    return r


# ---------------------------------------------------------------------------
# Phase A: the k-th read/write/fsync/close on any data descriptor fails

def phase_faults(c, bindir, hx, model_cases):
    tools = tr.catalogue()
    errs = list(ERRNOS.items())
    jobs = []
    base = {}
    for t in tools:
        rc, outs, err, ev = faulted_run(t, bindir, hx)
        if rc != 0:
            c.broken.append("clean run of %s under the interposer exits %s: %s" % (t.label, rc, err[-200:]))
            continue
        base[t.label] = (outs, ev)
        for op in ("read", "write", "fsync", "close"):
            n = len([e for e in ev if e[0] == op])
            for k in range(1, n + 2):          # n+1: a fault point that is never reached (control)
                if c.tier == "thorough":
                    chosen = errs
                else:
                    chosen = [errs[(k + len(op)) % 3]] if k <= n else [errs[0]]
                for en, eno in chosen:
                    jobs.append((t, (op, "any", k, eno), "fatal"))
            # benign controls: EINTR is retried by read/write loops; fsync EINVAL is ignored by design
            if op in ("read", "write") and n and t.kind != "iostream":
                jobs.append((t, (op, "any", 1 + (c.rng.randrange(n)), EINTR), "benign"))
            if op == "fsync" and n:
                jobs.append((t, (op, "any", 1, EINVAL), "benign"))

    def work(j):
        t, fault, kind = j
        return j, faulted_run(t, bindir, hx, fault)

    with ThreadPoolExecutor(WORKERS) as ex:
        results = list(ex.map(work, jobs))
    for (t, fault, kind), (rc, outs, err, ev) in results:
        op, fd, k, eno = fault
        hit = [e for e in ev if e[0] == op and e[3] == -1 and e[4] == eno]
        base_outs, base_ev = base[t.label]
        bucket = "fault/%s/%s/%s" % (t.kind, op, "hit" if hit else "not-reached") if kind == "fatal" else "control/%s/%s" % (t.kind, op)
        c.count((t.label, fault), nontrivial=bool(hit), bucket=bucket)
        c.sample({"tool": t.label, "fault": fault, "status": rc, "fault_delivered": bool(hit)}, limit=4)
        if rc == "timeout":
            c.violation("hang-under-fault: %s did not terminate within the timeout when %s #%d failed with errno %d" % (t.label, op, k, eno),
                        replay_of(t, bindir, hx, fault, {"status": "timeout"}))
            continue
        if kind == "fatal" and hit and rc == 0:
            c.violation("io-error-exit-0: %s exits 0 although %s #%d on fd %d failed with errno %d" % (t.label, op, k, hit[0][1], eno),
                        replay_of(t, bindir, hx, fault, {"status": rc, "trace": ev[-8:]}))
        if rc == 0 and outs != base_outs:
            c.violation("exit-0-output-incomplete: %s exits 0 under fault %s but its output differs from the fault-free run" % (t.label, fault),
                        replay_of(t, bindir, hx, fault, {"status": rc, "got": {k_: hexs(v or b"") for k_, v in outs.items()},
                                                         "expected": {k_: hexs(v or b"") for k_, v in base_outs.items()}}))
        if kind == "benign" and rc != 0:
            c.broken.append("control: %s exits %s under benign fault %s (EINTR retry / ignored fsync errno): %s" % (t.label, rc, fault, err[-200:]))
        if kind == "fatal" and not hit and rc != 0:
            c.broken.append("control: %s exits %s although fault %s was never delivered: %s" % (t.label, rc, fault, err[-200:]))
        model_cases.append((t, fault, rc, ev, base_ev))
    return base


# ---------------------------------------------------------------------------
# Phase B: real kernel failures (also reaches glibc stdio, which the interposer cannot)

def _limit_fsize(n):
    def f():
        signal.signal(signal.SIGXFSZ, signal.SIG_IGN)
        resource.setrlimit(resource.RLIMIT_FSIZE, (n, n))
    return f


def _ignore_sigpipe():
    signal.signal(signal.SIGPIPE, signal.SIG_IGN)


def phase_kernel(c, bindir, hx, base):
    tools = [t for t in tr.catalogue() if t.label in base]
    jobs = []
    for t in tools:
        full = base[t.label][0]["stdout"]
        if full:
            jobs.append((t, "devfull", None))
            jobs.append((t, "epipe", None))
            limits = range(0, len(full) + 1) if (t.kind == "iostream" or c.tier == "thorough") else sorted(set([0, 1, len(full) // 2, len(full) - 1, len(full)]))
            for n in limits:
                jobs.append((t, "fsize", n))
        if t.reads_stdin:
            jobs.append((t, "stdin-dir", None))

    def work(j):
        t, kind, n = j
        with tr.Scratch(SCRATCH, t) as w:
            argv = t.argv(bindir, w, hx)
            if kind == "devfull":
                with open("/dev/full", "wb") as f:
                    rc, _, err = tr.run(argv, t.stdin, stdout=f, cwd=w)
                return j, rc, None, err
            if kind == "fsize":
                p = os.path.join(w, "stdout.bin")
                with open(p, "wb") as f:
                    rc, _, err = tr.run(argv, t.stdin, stdout=f, cwd=w, preexec_fn=_limit_fsize(n))
                return j, rc, open(p, "rb").read(), err
            if kind == "epipe":
                r, wr = os.pipe()
                os.close(r)
                try:
                    with os.fdopen(wr, "wb") as f:
                        rc, _, err = tr.run(argv, t.stdin, stdout=f, cwd=w, preexec_fn=_ignore_sigpipe)
                except BrokenPipeError:
                    rc, err = -signal.SIGPIPE, b""
                return j, rc, None, err
            if kind == "stdin-dir":
                fd = os.open(w, os.O_RDONLY)
                try:
                    rc, out, err = tr.run(argv, cwd=w, stdin_file=fd)
                finally:
                    os.close(fd)
                return j, rc, out, err

    with ThreadPoolExecutor(WORKERS) as ex:
        results = list(ex.map(work, jobs))
    for (t, kind, n), rc, got, err in results:
        full = base[t.label][0]["stdout"]
        bucket = "kernel/%s/%s" % (t.kind, kind)
        c.count((t.label, kind, n), bucket=bucket)
        rep = {"tool": t.label, "argv": t.argv("$BIN", "$W", "$HX"), "stdin_hex": hexs(t.stdin), "files_hex": {k: hexs(v) for k, v in t.files.items()}, "status": rc}
        if rc == "timeout":
            c.violation("hang-under-fault: %s hangs with %s" % (t.label, kind), dict(rep, fault=kind))
        elif kind == "devfull" and rc == 0:
            c.violation("io-error-exit-0: %s > /dev/full (every write fails with ENOSPC) exits 0" % t.label,
                        dict(rep, fault="stdout=/dev/full", how="%s < stdin > /dev/full; echo $?" % " ".join(rep["argv"])))
        elif kind == "epipe" and rc == 0:
            c.violation("io-error-exit-0: %s writing to a pipe without reader (EPIPE, SIGPIPE ignored) exits 0" % t.label,
                        dict(rep, fault="stdout=closed pipe", how="(trap '' PIPE; %s < stdin | true); echo ${PIPESTATUS[0]}" % " ".join(rep["argv"])))
        elif kind == "fsize":
            if n < len(full) and rc == 0:
                c.violation("io-error-exit-0: %s exits 0 although stdout accepted only %d of %d bytes (EFBIG at RLIMIT_FSIZE=%d)" % (t.label, len(got), len(full), n),
                            dict(rep, fault="RLIMIT_FSIZE=%d, SIGXFSZ ignored, stdout regular file" % n,
                                 how="(trap '' XFSZ; ulimit -f <blocks>; %s < stdin > out); echo $?   # byte-exact limit via setrlimit" % " ".join(rep["argv"])))
            if rc == 0 and got != full:
                c.violation("exit-0-output-incomplete: %s exits 0 but the file holds %d of %d bytes" % (t.label, len(got), len(full)), dict(rep, fault="RLIMIT_FSIZE=%d" % n))
            if n >= len(full) and rc != 0:
                c.broken.append("control: %s exits %s with RLIMIT_FSIZE=%d >= output size %d: %s" % (t.label, rc, n, len(full), err[-200:]))
        elif kind == "stdin-dir" and rc == 0:
            c.violation("io-error-exit-0: %s exits 0 although every read of stdin fails with EISDIR (stdin is a directory)" % t.label,
                        dict(rep, fault="stdin=directory", how="%s < /var/tmp; echo $?" % " ".join(rep["argv"])))


# ---------------------------------------------------------------------------
# Phase C: the three wrappers (+ warc_parallel) with scripted dying children

WRAPPERS = [
    ("cache", [], b"a\nb\na\nc\nd\n"),
    ("cache", ["-k", "1", "-t", ","], b"k1,x\nk2,y\nk1,z\n"),
    ("foldfilter", ["-w", "10"], b"hello world, this is a long line\nshort\n\nlast one here\n"),
    ("foldfilter", ["-w", "6", "-s"], b"aa bb cc dd ee\nzz\n"),
    ("b64filter", [], b"YQpiCg==\nYw==\nCg==\nZAplCmY=\n"),
]


def child_lines(bindir, hx, name, args, stdin):
    """how many lines does the wrapper send to / expect from its child on this input"""
    with tr.Scratch(SCRATCH) as w:
        rc, out, err = tr.run([os.path.join(bindir, name)] + args + ["sh", "-c", "tee '%s/childin'" % w], stdin, cwd=w)
        data = open(os.path.join(w, "childin"), "rb").read()
        return rc, out, data.count(b"\n")


def phase_children(c, bindir, hx, model_cases):
    vchild = os.path.join(hx, "vchild")
    jobs = []
    expect = {}
    for wi, (name, args, stdin) in enumerate(WRAPPERS):
        rc, out, L = child_lines(bindir, hx, name, args, stdin)
        if rc != 0 or L == 0:
            c.broken.append("clean wrapper run failed: %s %s rc=%s" % (name, args, rc))
            continue
        expect[wi] = (out, L)
        codes_all = range(0, 256) if (wi in (0, 2, 4)) else [0, 1, 2, 126, 127, 128, 255]
        for code in codes_all:
            jobs.append((wi, -1, "exit:%d" % code, "drain"))
        sigs = FATAL_SIGNALS if (c.tier == "thorough" or wi in (0, 2, 4)) else [9, 15, 11, 13]
        for s in sigs:
            jobs.append((wi, -1, "sig:%d" % s, "drain"))
        for k in range(0, L + 1):
            for term in ["exit:0", "exit:1", "exit:255", "sig:9", "sig:15", "sig:11"] + (["sig:%d" % s for s in (1, 2, 6, 13)] if c.tier == "thorough" else []):
                for mode in ("nodrain", "drain"):
                    jobs.append((wi, k, term, mode))
    # warc_parallel: child failures abort the reaper
    wp_in = tr.WARC1 + tr.WARC2

    def work(j):
        wi, k, term, mode = j
        name, args, stdin = WRAPPERS[wi]
        argv = [os.path.join(bindir, name)] + args + [vchild, str(k), term, mode]
        rc, out, err = tr.run(argv, stdin, timeout=20)
        return j, rc, out, err

    with ThreadPoolExecutor(WORKERS) as ex:
        results = list(ex.map(work, jobs))
    for (wi, k, term, mode), rc, out, err in results:
        name, args, stdin = WRAPPERS[wi]
        exp_out, L = expect[wi]
        kind, val = term.split(":")
        val = int(val)
        point = "all" if k == -1 else ("k=L" if k == L else "premature")
        c.count((wi, k, term, mode), bucket="child/%s/%s/%s" % (name, kind, point))
        rep = {"wrapper": name, "argv": [name] + args + ["$HX/vchild", str(k), term, mode], "stdin_hex": hexs(stdin),
               "child": {"answers_lines": "all" if k == -1 else k, "of": L, "terminates": term, "mode": mode}, "status": rc,
               "how": "printf '<stdin>' | %s %s $HX/vchild %d %s %s; echo $?" % (name, " ".join(args), k, term, mode)}
        c.sample(rep, limit=6)
        model_cases.append(("child", name, L, k, term, mode, rc))
        if rc == "timeout":
            c.violation("wrapper-hang: %s does not terminate when its child (%s after %s answers, %s) ends" % (name, term, k, mode), rep)
            continue
        if kind == "sig" and rc == 0:
            c.violation("child-signal-exit-0: %s exits 0 although its child was killed by signal %d after answering %s of %d lines" % (name, val, "all" if k == -1 else k, L), rep)
        if kind == "exit" and val != 0 and rc == 0:
            c.violation("child-failure-exit-0: %s exits 0 although its child exited with code %d after %s answers" % (name, val, k), rep)
        if kind == "exit" and k == -1:
            if rc != val:
                c.violation("child-code-not-propagated: child answered everything and exited %d; %s returned %s" % (val, name, rc), rep)
            elif out != exp_out:
                c.violation("wrapper-output-wrong: child answered everything, %s output differs from the clean run" % name, rep)
        if k != -1 and k < L and rc == 0:
            c.violation("premature-eof-exit-0: %s exits 0 although its child stopped after %d of %d answers (%s, %s)" % (name, k, L, term, mode), rep)
    # warc_parallel (not one of the three, same Launch/wait machinery): failures must not be success
    for term in ["exit:0", "exit:3", "sig:9", "sig:15"]:
        rc, out, err = tr.run([os.path.join(bindir, "warc_parallel"), "-j", "2", vchild, "-1", term, "drain"], wp_in, timeout=20)
        c.count(("warc_parallel", term), bucket="child/warc_parallel/" + term.split(":")[0])
        rep = {"wrapper": "warc_parallel", "argv": ["warc_parallel", "-j", "2", "$HX/vchild", "-1", term, "drain"], "stdin_hex": hexs(wp_in), "status": rc}
        if rc == "timeout":
            c.violation("wrapper-hang: warc_parallel with child %s" % term, rep)
        elif term != "exit:0" and rc == 0:
            c.violation("child-failure-exit-0: warc_parallel exits 0 with child %s" % term, rep)
        elif term == "exit:0" and rc != 0:
            c.broken.append("control: warc_parallel with a well-behaved child exits %s" % rc)


def main(argv):
    c = Check("C11", argv)
    ok, blog = build_repo(["all"])
    if not ok:
        c.broken.append("build of the repo working tree failed: " + blog[-800:])
        return c.finish(rule="build failed")
    bindir = os.path.dirname(repo_bin("x"))
    hx = os.path.dirname(hx_bin("x"))
    model_cases = []
    base = phase_faults(c, bindir, hx, model_cases)
    phase_kernel(c, bindir, hx, base)
    phase_children(c, bindir, hx, model_cases)
    shutil.rmtree(SCRATCH, ignore_errors=True)
    if os.environ.get("VERIF_DEBUG"):
        for what, obj, found in c.violations:
            log("  [debug] " + what[:200])
    return c.finish(level="proof", rule="", assumptions=[])


if __name__ == "__main__":
    sys.exit(main(sys.argv[1:]))
