"""C01 -- dedupe keeps exactly the first occurrence of every key, in input order.

  build -> proofs (Props/Properties_C01.v) -> extracted model
  -> correspondence 1: Dedupe / FieldDedupe objects (hx_dedupe) vs model on key sequences
  -> correspondence 2 (tool level): bin/dedupe on byte streams (pipe / regular file / gz / bz2 / xz,
     -f/-d, -p with 4 files) vs the model of the whole tool (records -> keys -> seen-set -> writer);
     the 64-bit keys are the ones the real hashing code computes (Murmur is C14's model)
  -> direct oracle, independent of model and harness: Python first-occurrence semantics on the real
     bin/dedupe output; the -p claims of the property; idempotence; 2.5e5 distinct keys (all growth
     steps incl. the 2 MiB malloc -> mmap transition)."""
import bz2
import gzip
import lzma
import os
import shutil
import sys
import tempfile

sys.path.insert(0, os.path.join(os.path.dirname(os.path.abspath(__file__)), "..", "tools"))
from checklib import *  # noqa

M64 = (1 << 64) - 1
MUR_M = 0xc6a4a7935bd1e995
MUR_R = 47
MUR_MINV = pow(MUR_M, -1, 1 << 64)


def murmur_block_inverse(kprime):
    """the 8-byte block k with ((k*m) ^ ((k*m) >> r)) * m == kprime (mod 2^64)"""
    x = (kprime * MUR_MINV) & M64
    y = x ^ (x >> MUR_R)
    return (y * MUR_MINV) & M64


def hash0_line(rng, seed=1):
    """a 16-byte line with MurmurHash64A(line, 16, seed) == 0 and no newline / CR in it"""
    while True:
        first = bytes(rng.choice(b"abcdefghijklmnopqrstuvwxyz") for _ in range(8))
        h = (seed ^ ((16 * MUR_M) & M64)) & M64
        k = int.from_bytes(first, "little")
        k = (k * MUR_M) & M64
        k ^= k >> MUR_R
        k = (k * MUR_M) & M64
        h ^= k
        h = (h * MUR_M) & M64
        second = murmur_block_inverse(h).to_bytes(8, "little")
        line = first + second
        if b"\n" not in line and not line.endswith(b"\r"):
            return line


# ---------------------------------------------------------------- reference semantics (independent)

def py_records(data):
    """the lines dedupe handles: split at LF, every other byte (a trailing CR included) belongs to the line --
    the property says the kept lines are written byte-for-byte; a non-empty unterminated tail is a line"""
    parts = data.split(b"\n")
    tail = parts.pop()
    if tail:
        parts.append(tail)
    return parts


def py_first_occ(lines, keyf=lambda l: l):
    seen = set()
    out = []
    for l in lines:
        k = keyf(l)
        if k not in seen:
            seen.add(k)
            out.append(l)
    return out


def cut_key(spec, delim):
    """key of a line under `-f spec -d delim` for lines that contain every selected field:
    per range, the joined fields (cut semantics)"""
    ranges = []
    for part in spec.split(","):
        if "-" in part:
            a, b = part.split("-")
            ranges.append((int(a) if a else 1, int(b) if b else None))
        else:
            ranges.append((int(part), int(part)))
    ranges.sort()

    def f(line):
        fs = line.split(delim)
        return tuple(tuple(fs[a - 1:(b if b is not None else len(fs))]) for a, b in ranges)
    return f


# ---------------------------------------------------------------- generators

def gen_stream(rng, kind):
    """returns bytes"""
    if kind == "small-alphabet":
        n = rng.randrange(0, 40)
        lines = [bytes(rng.choice(b"ab") for _ in range(rng.randrange(0, 3))) for _ in range(n)]
    elif kind == "dups-at-distance":
        n = rng.choice([10, 50, 300, 1500])
        pool = [b"line%d" % i for i in range(max(1, n // rng.choice([1, 2, 5, 20])))]
        lines = [rng.choice(pool) for _ in range(n)]
    elif kind == "binary":
        n = rng.randrange(1, 30)
        alpha = [b"\x00", b"\xff", b"\xc3", b"\xa9", b"a", b"\t", b" ", b"\r", b"\x80\x80", b"\xf0\x9f\x98\x80"]
        pool = [b"".join(rng.choice(alpha) for _ in range(rng.randrange(0, 6))) for _ in range(max(1, n // 2))]
        lines = [rng.choice(pool) for _ in range(n)]
    elif kind == "crlf":
        n = rng.randrange(1, 20)
        pool = [b"x", b"y", b"x\r", b"", b"\r", b"y\r\r"]
        lines = [rng.choice(pool) for _ in range(n)]
    elif kind == "long-lines":
        n = rng.randrange(2, 8)
        pool = [bytes([rng.choice(b"xyz")]) * rng.choice([4095, 4096, 4097, 70000, 200000]) for _ in range(3)]
        lines = [rng.choice(pool) + rng.choice([b"", b"1"]) for _ in range(n)]
    else:
        raise ValueError(kind)
    data = b"\n".join(lines)
    if lines and rng.random() < 0.7:
        data += b"\n"
    return data


def gen_fielded(rng, ragged=False):
    delim = rng.choice([b"\t", b",", b" "])
    spec = rng.choice(["2", "1", "3", "1,3", "2-3", "2-", "1-2", "-2", "1,3-"])
    n = rng.choice([5, 30, 200])
    vals = [b"a", b"b", b"c", b"dd", b"e f" if delim != b" " else b"ef"]
    if not ragged:
        nf = rng.randrange(3, 6)
        lines = [delim.join(rng.choice(vals) for _ in range(nf)) for _ in range(n)]
    else:
        # RAGGED rows: the same selected key once in the middle of a line and once at its end, rows with
        # fewer fields than selected, empty fields, trailing delimiters (empty last field)
        vals = vals[:3] + [b""]
        lines = []
        for _ in range(n):
            nf = rng.randrange(1, 6)
            fs = [rng.choice(vals) for _ in range(nf)]
            lines.append(delim.join(fs))
        # and explicit pairs: key followed / not followed by further fields
        k = rng.choice([b"k", b"kk"])
        lines += [k + delim + b"x", k, b"p" + delim + k, b"p" + delim + k + delim + b"y", k + delim, k + delim + delim + b"z"]
        rng.shuffle(lines)
    data = b"\n".join(lines) + b"\n"
    return spec, delim, data


BACKINGS = ["pipe", "file", "gz", "bz2", "xz"]


def run_dedupe(exe, data, backing, tmp, args=()):
    """run the real binary with `data` on stdin supplied through the given backing"""
    if backing == "pipe":
        return run_tool([exe] + list(args), stdin=data, timeout=120)
    if "-staged" in backing:
        # a compressed stream on a pipe whose first read delivers only 1 or 2 bytes of the magic, then a pause
        comp = {"gz": gzip.compress, "bz2": bz2.compress, "xz": lzma.compress}[backing.split("-")[0]]
        raw = comp(data)
        k = int(backing[-1])
        return run_staged([exe] + list(args), [raw[:k], raw[k:]], pause=0.4, timeout=60)
    if backing.endswith("-members"):
        # several concatenated compressed members, with EMPTY members at the start, in the middle and at the end
        comp = {"gz": gzip.compress, "bz2": bz2.compress, "xz": lzma.compress}[backing.split("-")[0]]
        cut = data.rfind(b"\n", 0, len(data) // 2) + 1
        raw = comp(b"") + comp(data[:cut]) + comp(b"") + comp(b"") + comp(data[cut:]) + comp(b"")
    else:
        raw = {"file": lambda d: d, "gz": gzip.compress, "bz2": bz2.compress, "xz": lzma.compress}[backing](data)
    path = os.path.join(tmp, "in." + backing)
    with open(path, "wb") as f:
        f.write(raw)
    with open(path, "rb") as f:
        try:
            p = subprocess.run([exe] + list(args), stdin=f, stdout=subprocess.PIPE, stderr=subprocess.PIPE, timeout=120)
            return p.returncode, p.stdout, p.stderr
        except subprocess.TimeoutExpired as e:
            return "timeout", e.stdout or b"", e.stderr or b""


def run_par(exe, d0, d1, tmp, args=()):
    paths = [os.path.join(tmp, n) for n in ("in0", "in1", "out0", "out1")]
    open(paths[0], "wb").write(d0)
    open(paths[1], "wb").write(d1)
    for p in paths[2:]:
        if os.path.exists(p):
            os.unlink(p)
    st, out, err = run_tool([exe] + list(args) + ["-p"] + paths, timeout=120)
    o0 = open(paths[2], "rb").read() if os.path.exists(paths[2]) else None
    o1 = open(paths[3], "rb").read() if os.path.exists(paths[3]) else None
    return st, o0, o1, err


def hexd(b):
    return b.hex() if b else "-"


def main(argv):
    c = Check("C01", argv)
    ok, blog = build_repo(["hx_dedupe", "dedupe"])
    if not ok:
        c.broken.append("build of the repo working tree / hx_dedupe failed: " + blog[-800:])
        return c.finish(rule="build failed")
    c.proofs()
    if c.tier == "thorough":
        coqchk(c)
    drv, dlog = build_driver("C01")
    hx = hx_bin("hx_dedupe")
    exe = repo_bin("dedupe")
    rng = c.rng
    tmp = tempfile.mkdtemp(prefix="c01-", dir=os.environ.get("VERIF_BUILD", "/var/tmp"))
    thorough = c.tier == "thorough"
    try:
        if drv is None:
            c.broken.append("extraction/driver build failed: " + dlog[-600:])

        # ------------------------------------------------------------ single-stream cases
        cases = []          # (bucket, data, backing, args, keyfun for the oracle, (fields, delimhex) for the harness)
        kinds = ["small-alphabet", "dups-at-distance", "binary", "crlf", "long-lines"]
        reps = 100 if not thorough else 400
        for kind in kinds:
            for i in range(reps if kind != "long-lines" else max(4, reps // 8)):
                cases.append((kind, gen_stream(rng, kind), BACKINGS[(i + len(cases)) % 5], [], None, ("-", "09")))
        for i in range(reps * 2):
            ragged = i % 2 == 1
            spec, delim, data = gen_fielded(rng, ragged)
            args = ["-f", spec, "-d", delim.decode()] if delim != b"\t" or rng.random() < 0.5 else ["-f", spec]
            cases.append(("fields%s -f %s" % ("-ragged" if ragged else "", spec), data, BACKINGS[i % 5], args, cut_key(spec, delim), (spec, delim.hex())))
        # slow producer: the compressed magic arrives in two reads
        for b in ("gz-staged1", "gz-staged2", "bz2-staged1", "bz2-staged2", "xz-staged1", "xz-staged2"):
            cases.append(("boundary/staged-pipe", b"a\nb\na\nc\n" * 3, b, [], None, ("-", "09")))
        # short keys of different length that differ only by trailing NUL padding and one byte with
        # len1 ^ len2 == byte1 ^ byte2 (distinct lines: both kept; a hash that mixes the length weakly merges them)
        shorts = []
        for n1 in range(1, 7):
            for n2 in range(n1 + 1, 8):
                base = bytes(rng.choice(b"abcdefgh") for _ in range(n1))
                shorts.append(base)
                shorts.append(bytes([base[0] ^ n1 ^ n2]) + base[1:] + b"\x00" * (n2 - n1))
        cases.append(("boundary/short-NUL-padded-keys", b"".join(x + b"\n" for x in shorts), "pipe", [], None, ("-", "09")))
        cases.append(("boundary/short-NUL-padded-keys", b"".join(b"f\t" + x + b"\tg\n" for x in shorts), "file", ["-f", "2"], cut_key("2", b"\t"), ("2", "09")))
        # compressed inputs made of several members, empty members in between (gz / bz2 / xz)
        for i in range(max(9, reps // 4)):
            kind = kinds[i % 4]
            cases.append((kind + "/multi-member", gen_stream(rng, kind), ["gz-members", "bz2-members", "xz-members"][i % 3], [], None, ("-", "09")))
        for b in ("gz-members", "bz2-members", "xz-members"):
            cases.append(("boundary/multi-member", b"a\nb\na\nc\n", b, [], None, ("-", "09")))
        # boundary streams
        z16 = hash0_line(rng)
        fixed = [b"", b"\n", b"\n\n", b"a", b"a\n", b"a\na", b"a\r\na\n", b"a\n\na\n\n", b"\x00\n\x00\n", b"a\rb\na\rb\n",
                 z16 + b"\n", b"x\n" + z16 + b"\ny\n" + z16 + b"\n", z16 + b"\n" + z16 + b"\n"]
        for i, d in enumerate(fixed):
            for b in (BACKINGS if i < 6 else ["pipe", "file"]):
                cases.append(("boundary" if z16 not in d else "boundary/line-hashing-to-0", d, b, [], None, ("-", "09")))
        # partial collisions: distinct lines whose 64-bit hashes agree in the low / high 32 bits must BOTH be kept
        # (only a full 64-bit collision is excused); found with an independent Python MurmurHash64A
        partial = murmur_partial_collisions(250000 if not thorough else 1500000, seed=1)
        for kind_, prs in partial.items():
            for a_, b_ in prs:
                cases.append(("partial-collision/" + kind_, a_ + b"\n" + b_ + b"\n" + a_ + b"\n", "pipe", [], None, ("-", "09")))
                cases.append(("partial-collision/" + kind_, b"x\t" + a_ + b"\ny\t" + b_ + b"\n", "file", ["-f", "2"], cut_key("2", b"\t"), ("2", "09")))
        # -f with a field hashing to 0: the key of `-f 2` is Murmur(field2, seed 1)
        cases.append(("boundary/line-hashing-to-0", b"p\t" + z16 + b"\tq\nr\t" + z16 + b"\ts\nt\tu\tv\n", "pipe", ["-f", "2"], cut_key("2", b"\t"), ("2", "09")))

        results = []
        dl = []
        for (bucket, data, backing, args, keyf, hxopt) in cases:
            st, out, err = run_dedupe(exe, data, backing, tmp, args)
            results.append((st, out))
            lines = py_records(data)
            c.count((data, backing, tuple(args)), nontrivial=len(lines) > 1, bucket="%s/%s" % (bucket.split(" ")[0], backing))
            # ---- direct oracle: first occurrence by content
            want = py_first_occ(lines, keyf or (lambda l: l))
            want_bytes = b"".join(l + b"\n" for l in want)
            desc = {"stdin_hex": data.hex() if len(data) < 4000 else data[:2000].hex() + "...", "stdin_len": len(data), "backing": backing,
                    "args": args, "how": "bin/dedupe %s < input (input supplied as %s)" % (" ".join(args), backing)}
            if st != 0:
                c.violation("dedupe-exit: status %s on a valid input (%s): %s" % (st, backing, err[-200:]), dict(desc, status=str(st)))
            elif out != want_bytes:
                got = out.split(b"\n")
                # first differing line
                w = want_bytes.split(b"\n")
                j = next((x for x in range(min(len(got), len(w))) if got[x] != w[x]), min(len(got), len(w)))
                c.violation("first-occurrence: output differs from the first-occurrence filter at output line %d: got %r expected %r (input %d lines, %s%s)" % (
                    j, got[j][:40] if j < len(got) else None, w[j][:40] if j < len(w) else None, len(lines), backing, " " + " ".join(args) if args else ""),
                    dict(desc, got_hex=out[:4000].hex(), expected_hex=want_bytes[:4000].hex()))
            else:
                # idempotence on the real tool
                st2, out2, _ = run_dedupe(exe, out, "pipe", tmp, args)
                if st2 != 0 or out2 != out:
                    cr = any(l.endswith(b"\r") for l in out.split(b"\n"))
                    c.violation("idempotence: dedupe on its own output changed it", dict(desc, first_output_hex=out[:4000].hex(), second_output_hex=out2[:4000].hex(),
                                                                                             output_has_line_ending_in_CR="yes" if cr else "no"))
        c.sample({"stdin": repr(cases[3][1][:80]), "backing": cases[3][2]})
        c.sample({"stdin": repr(cases[-1][1][:120]), "args": cases[-1][3]})

        # ------------------------------------------------------------ tool-level model correspondence
        if drv is not None:
            small = [i for i, cse in enumerate(cases) if len(cse[1]) < 30000]
            rc, recs, e1 = run_lines(drv, ["R " + hexd(cases[i][1]) for i in small], timeout=600)
            if len(recs) != len(small):
                c.broken.append("C01 driver R failed: %s" % e1[-300:])
            else:
                klines = ["K %s %s %s" % (cases[i][5][0], cases[i][5][1], r if r.strip() else "") for i, r in zip(small, recs)]
                keys = run_lines_robust(hx, klines, timeout=300)
                tl = ["T %s %s" % (hexd(cases[i][1]), "" if k == "-" else k) for i, k in zip(small, keys)]
                rc, mout, e2 = run_lines(drv, tl, timeout=900)
                if len(mout) != len(small):
                    c.broken.append("C01 driver T failed: %s" % e2[-300:])
                else:
                    dis = []
                    for i, mo in zip(small, mout):
                        st, out = results[i]
                        impl = "OK " + hexd(out) if st == 0 else "STATUS %s" % st
                        if mo != impl:
                            dis.append((cases[i], mo, impl))
                    c.cov["traces_validated_against_impl"] += len(small)
                    if dis:
                        cs, mo, impl = min(dis, key=lambda d: len(d[0][1]))
                        c.broken.append("tool correspondence dedupe model vs bin/dedupe: %d disagreement(s); smallest: stdin=%r args=%r backing=%s model=%s impl=%s" % (
                            len(dis), cs[1][:100], cs[3], cs[2], mo[:200], impl[:200]))
                # class-level: one real Dedupe/FieldDedupe object over the records vs the model on the same keys
                dl = ["D %s %s %s" % (cases[i][5][0], cases[i][5][1], r) for i, r in zip(small, recs) if r.strip()]
                kk = [k for k, r in zip(keys, recs) if r.strip()]
                flags_impl = run_lines_robust(hx, dl, timeout=300)
                rc, flags_model, e3 = run_lines(drv, ["D " + k for k in kk], timeout=900)
                if len(flags_model) == len(flags_impl):
                    bad = [(a, b, d) for a, b, d in zip(flags_model, flags_impl, dl) if a != b]
                    c.cov["traces_validated_against_impl"] += len(dl)
                    if bad:
                        a, b, d = min(bad, key=lambda x: len(x[2]))
                        c.broken.append("correspondence Dedupe::operator() model vs class: %d disagreement(s); smallest %r model=%s impl=%s" % (len(bad), d[:200], a[:80], b[:80]))
                else:
                    c.broken.append("C01 driver D failed: %s" % e3[-300:])

        # ------------------------------------------------------------ the COMPLETE tool model (options, Fields + Murmur
        # keys, records, seen-set, writer): nothing is taken from the implementation
        if drv is not None:
            tiny = [i for i, cse in enumerate(cases) if len(cse[1]) < 6000]
            tf = []
            for i in tiny:
                args = cases[i][3]
                spec = args[args.index("-f") + 1] if "-f" in args else "1-"
                dlm = args[args.index("-d") + 1].encode() if "-d" in args else b"\t"
                tf.append("TF %s %s %s" % (spec.encode().hex(), dlm.hex(), hexd(cases[i][1])))
            rc, fo, e5 = run_lines(drv, tf, timeout=900)
            if len(fo) != len(tf):
                c.broken.append("C01 driver TF failed: %s" % e5[-300:])
            else:
                dis = []
                for i, mo in zip(tiny, fo):
                    st, out = results[i]
                    impl = "OK " + hexd(out) if st == 0 else "STATUS %s" % st
                    if mo != impl:
                        dis.append((cases[i], mo, impl))
                c.cov["traces_validated_against_impl"] += len(tiny)
                c.cov["distribution"]["(complete-model runs: options+Fields+Murmur+seen-set)"] = len(tiny)
                if dis:
                    cs, mo, impl = min(dis, key=lambda d: len(d[0][1]))
                    c.broken.append("tool correspondence COMPLETE dedupe model (Fields+Murmur+seen-set) vs bin/dedupe: %d disagreement(s); smallest: stdin=%r args=%r model=%s impl=%s" % (
                        len(dis), cs[1][:100], cs[3], mo[:200], impl[:200]))

        # ------------------------------------------------------------ memory safety of the class under ASan/UBSan
        if thorough and drv is not None and not c.violations:
            asan_lines(c, "hx_dedupe", dl[:3000], "(Dedupe/FieldDedupe over the generated lines)")

        # ------------------------------------------------------------ parallel mode
        pcases = []
        preps = 150 if not thorough else 600
        for i in range(preps):
            n = rng.choice([1, 3, 10, 40, 200])
            if i % 3 == 2:
                # the same text on BOTH sides: identical source/target pairs, a target equal to an earlier source line
                pool = [b"t%d" % k for k in range(max(2, n // 2))]
                a = [rng.choice(pool) for _ in range(n)]
                b = [rng.choice(pool) if rng.random() < 0.7 else x for x in a]
            else:
                a = [b"e%d" % rng.randrange(max(1, n // rng.choice([1, 2, 4]))) for _ in range(n)]
                b = [b"f%d" % rng.randrange(max(1, n // rng.choice([1, 2, 4]))) for _ in range(n)]
            extra = rng.choice([0, 0, 0, 1, -1])
            if extra == 1:
                b.append(b"extra")
            elif extra == -1 and len(b) > 0:
                b.pop()
            pcases.append((b"".join(x + b"\n" for x in a), b"".join(x + b"\n" for x in b), []))
        pcases.append((b"", b"", []))
        for kind_, prs in partial.items():
            for a_, b_ in prs[:2]:
                pcases.append((a_ + b"\n" + b_ + b"\n", b"1\n2\n", []))
                pcases.append((b"1\n2\n", a_ + b"\n" + b_ + b"\n", []))
        # CR-terminated lines on the TARGET side only, on the source side only, on both: `x\r` and `x` are different
        # lines on either side and must come out byte for byte
        pcases.append((b"1\n2\n3\n", b"x\r\nx\ny\r\n", []))
        pcases.append((b"x\r\nx\ny\r\n", b"1\n2\n3\n", []))
        pcases.append((b"a\r\na\nb\r\r\n", b"a\na\r\nb\r\n", []))
        pcases.append((b"same\n", b"same\n", []))                         # a fresh pair with identical source and target
        pcases.append((b"s1\ns2\ns3\n", b"x\ns1\ns2\n", []))            # targets equal to earlier source lines
        pcases.append((b"k\tx\nk\nq\tk\n", b"1\n2\n3\n", ["-f", "1"]))      # -p with a field key, ragged rows
        pcases.append((b"a\nb", b"c\nd\n", []))
        pcases.append((z16 + b"\nq\n" + z16 + b"\n", b"1\n2\n3\n", []))
        pcases.append((b"1\n2\n3\n", z16 + b"\nq\n" + z16 + b"\n", []))
        pres = []
        for d0, d1, args in pcases:
            st, o0, o1, err = run_par(exe, d0, d1, tmp, args)
            pres.append((st, o0, o1))
            l0, l1 = py_records(d0), py_records(d1)
            c.count((d0, d1), nontrivial=len(l0) > 1, bucket="parallel/" + ("balanced" if len(l0) == len(l1) else "in1-longer" if len(l1) > len(l0) else "in1-shorter"))
            desc = {"in0_hex": d0[:3000].hex(), "in1_hex": d1[:3000].hex(), "args": args, "how": "bin/dedupe %s -p in0 in1 out0 out1" % " ".join(args)}
            kf = cut_key(args[args.index("-f") + 1], b"\t") if "-f" in args else (lambda l: l)
            if len(l0) == len(l1):
                if st != 0 or o0 is None or o1 is None:
                    c.violation("parallel-exit: status %s on balanced input: %s" % (st, err[-200:]), dict(desc, status=str(st)))
                    continue
                r0, r1 = o0.split(b"\n")[:-1], o1.split(b"\n")[:-1]
                pairs_in = list(zip(l0, l1))
                why = None
                if len(r0) != len(r1) or (o0 and not o0.endswith(b"\n")) or (o1 and not o1.endswith(b"\n")):
                    why = "outputs are not line-aligned (%d vs %d lines)" % (len(r0), len(r1))
                else:
                    # subsequence of the input pairs, in order
                    it = iter(pairs_in)
                    if not all(any(p == q for q in it) for p in zip(r0, r1)):
                        why = "an emitted pair is not an input pair in input order"
                    elif len(set(map(kf, r0))) != len(r0) or len(set(map(kf, r1))) != len(r1):
                        why = "an output repeats a line (key)"
                    else:
                        seen0, seen1, kept = set(), set(), set(zip(r0, r1))
                        for a, b in pairs_in:
                            if kf(a) not in seen0 and kf(b) not in seen1 and (a, b) not in kept:
                                why = "the pair (%r, %r), both of whose sides never occurred before on their own side, was dropped" % (a[:30], b[:30])
                                break
                            seen0.add(kf(a))
                            seen1.add(kf(b))
                if why:
                    c.violation("parallel: " + why, dict(desc, out0_hex=(o0 or b"")[:3000].hex(), out1_hex=(o1 or b"")[:3000].hex()))
        if drv is not None:
            # keys through the harness, then the model of the 4-file loop
            rc, rr0, _ = run_lines(drv, ["R " + hexd(d0) for d0, _, _ in pcases], timeout=300)
            rc, rr1, _ = run_lines(drv, ["R " + hexd(d1) for _, d1, _ in pcases], timeout=300)
            pspec = [(a[a.index("-f") + 1] if "-f" in a else "-") for _, _, a in pcases]
            k0 = run_lines_robust(hx, ["K %s 09 %s" % (sp, r) for sp, r in zip(pspec, rr0)], timeout=300)
            k1 = run_lines_robust(hx, ["K %s 09 %s" % (sp, r) for sp, r in zip(pspec, rr1)], timeout=300)
            pl = []
            for (d0, d1, _), a, b in zip(pcases, k0, k1):
                a = [] if a == "-" else a.split()
                b = [] if b == "-" else b.split()
                pl.append("P %s %s %d %s" % (hexd(d0), hexd(d1), len(a), " ".join(a + b)))
            # ... and the complete -p model with its own keys
            pf = ["PF %s 09 %s %s" % ((a[a.index("-f") + 1] if "-f" in a else "1-").encode().hex(), hexd(d0), hexd(d1)) for d0, d1, a in pcases]
            rc, pfo, _ = run_lines(drv, pf, timeout=900)
            rc, pm, e4 = run_lines(drv, pl, timeout=900)
            if len(pfo) == len(pm) and pfo != pm:
                j = next(x for x in range(len(pm)) if pm[x] != pfo[x])
                c.broken.append("complete -p model (own Murmur keys) and key-fed -p model disagree on in0=%r in1=%r: %s vs %s" % (pcases[j][0][:60], pcases[j][1][:60], pfo[j][:100], pm[j][:100]))
            if len(pm) != len(pcases):
                c.broken.append("C01 driver P failed: %s" % e4[-300:])
            else:
                dis = []
                for (d0, d1, _), mo, (st, o0, o1) in zip(pcases, pm, pres):
                    if st in (134, -6):
                        impl = "abort - -"
                    else:
                        impl = "%s %s %s" % (st, hexd(o0), hexd(o1))
                    if mo != impl:
                        dis.append((d0, d1, mo, impl))
                c.cov["traces_validated_against_impl"] += len(pcases)
                if dis:
                    d0, d1, mo, impl = min(dis, key=lambda d: len(d[0]) + len(d[1]))
                    c.broken.append("tool correspondence dedupe -p model vs bin/dedupe: %d disagreement(s); smallest in0=%r in1=%r model=%s impl=%s" % (len(dis), d0[:80], d1[:80], mo[:160], impl[:160]))

        # ------------------------------------------------------------ every growth step: 2.5e5 distinct keys
        for rep, backing in enumerate(["file", "pipe"] if not thorough else BACKINGS):
            n = 250000 if not thorough else 1200000
            ids = list(range(n))
            rng.shuffle(ids)
            # every key three times at random distances
            seq = ids + ids[: n // 2] + ids[n // 3:]
            if rep % 2:
                rng.shuffle(seq)
            data = b"".join(b"k%x\n" % i for i in seq)
            st, out, err = run_dedupe(exe, data, backing, tmp)
            c.count(("large", rep), bucket="large/%d-distinct-keys/%s" % (n, backing))
            want = b"".join(l + b"\n" for l in py_first_occ(data.split(b"\n")[:-1]))
            if st != 0 or out != want:
                got = out.split(b"\n")
                w = want.split(b"\n")
                j = next((x for x in range(min(len(got), len(w))) if got[x] != w[x]), min(len(got), len(w)))
                c.violation("first-occurrence-large: %d distinct keys (%s): status %s, first difference at output line %d (got %r, expected %r), %d vs %d lines" % (
                    n, backing, st, j, got[j][:30] if j < len(got) else None, w[j][:30] if j < len(w) else None, len(got) - 1, len(w) - 1),
                    {"generator": "seed %d: lines k<hex id>, ids 0..%d shuffled, each key three times" % (c.seed, n - 1), "backing": backing,
                     "first_difference_line": j, "how": "bin/dedupe < file"})
    finally:
        shutil.rmtree(tmp, ignore_errors=True)
    return c.finish(level="proof",
                    rule="a case = one byte stream through the real bin/dedupe (backings pipe/file/gz/bz2/xz round-robin; -f/-d variants; -p with 4 files). Each is checked (1) against the Python first-occurrence filter on the tool's own output, (2) for idempotence, (3) against the extracted model of the whole tool fed with the keys the real hashing code computed. distinct = distinct (stream, backing, options) with more than one line",
                    assumptions=["the 64-bit key of a line is taken from the real code (hx_dedupe reads it back from the table of a fresh Dedupe/FieldDedupe object); MurmurHash64A itself is property C14",
                                 "no 64-bit hash collision among the generated lines (the documented permitted deviation); the oracle compares by content, so a collision would be reported",
                                 "-f/-d oracle uses cut semantics on lines that contain every selected field without trailing delimiter (the field-selection corner cases belong to C10)",
                                 "an uncaught C++ exception ends the process by abort (status 134)"])


if __name__ == "__main__":
    sys.exit(main(sys.argv[1:]))
