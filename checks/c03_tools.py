"""C03 (tool level) -- catalogue of well-formed invocations of the 24 preprocess tools.

`tool_cases(bindir, workdir, rng, tier)` returns a list of invocation descriptions that the
metamorphic harness (short reads / short writes / EINTR injection) can run and diff.  Every
invocation exits 0 on the unmodified binaries, consumes a non-trivial input (tens to hundreds
of KB: long lines, empty lines, CR-LF, tabs, multi-byte UTF-8, and -- where the tool tolerates
it -- invalid UTF-8 and NUL bytes) and produces non-empty, run-to-run deterministic output.

Each dict has the keys
    tool, argv, stdin, files, outputs, note
(see the docstring of tool_cases).  Nothing here runs a binary; inputs that need structure
(base64 documents, WARC records, GIZA alignments, train_case / truecase models) are generated
in Python, including a bit-exact MurmurHash64A so the apply_case model really hits.

Things learnt from the sources that the inputs deliberately steer around (all are still
deterministic, they just make the tool exit non-zero, hang or hit undefined behaviour):
  * apply_case     : an empty target line runs `++i` past end() of an empty vector
                     (observed: SIGSEGV, exit 139).
  * b64filter      : an empty document evaluates `doc.back()` on an empty string (UB; benign
                     in the release build, but avoided).
  * foldfilter     : invalid UTF-8 makes util::DecodeUTF8 throw inside a thread -> terminate
                     (observed: SIGABRT, exit 134).
  * truecase       : the `continue` in the NotUTF8Exception handler does not advance the
                     token iterator (latent infinite loop); in this build util::ToLower maps
                     bad bytes to U+FFFD instead of throwing, still input is kept valid UTF-8.
  * substitute     : needs >= 6 non-empty tab separated fields per line or it aborts (exit 134).
  * train_case / apply_case : target words must be valid UTF-8 (util::ToLower throws).
  * warc_parallel  : more than one job, or more than one --inputs file, interleaves records
                     in scheduling order; every case here uses `-j 1` and one input.
  * process_unicode: prints str[0] rather than *cur, so an odd number of --flatten/--normalize
                     passes prints the un-processed line (deterministic, just surprising).
"""
import base64 as _b64
import gzip as _gzip
import os
import sys

CAT = "/bin/cat"
TR = "/usr/bin/tr"
REV = "/usr/bin/rev"

ALL_TOOLS = [
    "apply_case", "b64filter", "base64_number", "cache", "commoncrawl_dedupe", "dedupe",
    "docenc", "foldfilter", "gigaword_unwrap", "idf", "mmhsum", "order_independent_hash",
    "process_unicode", "remove_invalid_utf8", "remove_invalid_utf8_base64",
    "remove_long_lines", "shard", "simple_cleaning", "substitute", "subtract_lines",
    "train_case", "truecase", "vocab", "warc_parallel",
]

# --------------------------------------------------------------------------- vocabulary

ASCII_WORDS = (
    "the of and to in a is that for it was on with as be by at this have from or had not "
    "but what all were when we there can an your which their said if do will each about how "
    "up out them then she many some so these would other into has more her two like him see "
    "time could no make than first been its who now people my made over did down only way "
    "find use may water long little very after words called just where most know get through "
    "back much before go good new write our used me man too any day same right look think "
    "also around another came come work three word must because does part even place well "
    "such here take why things help put years different away again off went old number great "
    "tell men say small every found still between name should home big give air line set own "
    "under read last never us left end along while might next sound below saw something "
    "thought both few those always looked show large often together asked house world going "
    "want school important until form food keep children feet land side without boy once "
    "animals life enough took sometimes four head above kind began almost live page got earth "
    "need far hand high year mother light parts country father let night following picture "
    "being study second eyes soon times story boys since white days ever paper hard near "
    "sentence better best across during today others however sure means knew told young "
    "miles sun ways thing whole hear example heard several change answer room sea against top "
    "turned learn point city play toward five using himself usually").split()

CAP_WORDS = ["London", "Paris", "Monday", "European", "Union", "NATO", "UNESCO", "iPhone",
             "McDonald", "Berlin", "Tokyo", "Amazon", "Mr.", "Dr.", "I", "U.S.", "President",
             "Google", "January", "Friday", "Mary", "John", "Smith", "United", "Nations",
             "IBM", "eBay", "Mexico", "Africa", "NASA"]

UTF8_WORDS = ["café", "naïve", "Zürich", "Ångström",
              "Ελληνικά",
              "κόσμος", "Москва",
              "привет", "Привет",
              "中文", "日本語", "こんにちは",
              "한국어", "עברית",
              "العربية", "İstanbul", "straße",
              "Straße", "ÉCOLE", "école", "œuvre", "ﬁnance",
              "\U0001F642", "\U0001D518\U0001D52B\U0001D526", "crème", "brûlée",
              "Ñandú", "ŁÓDŹ", "łódź",
              "été", "Ångstrom", "“quoted”", "‘single’",
              "«guillemets»", "dash—dash", "ellipsis…", "½",
              "€100", "naıve", "ẞ", "ǅ"]

INVALID_SEQS = [b"\xff", b"\xfe\xfe", b"\xc3(", b"\xe2\x82", b"\xf0\x9f\x98", b"\xc0\xaf",
                b"\xed\xa0\x80", b"\xf4\x90\x80\x80", b"\x80", b"\xbf\xbf", b"\xe0\x80\xaf"]

_M64 = 0xC6A4A7935BD1E995
_MASK = (1 << 64) - 1


def murmur64a(data, seed=0):
    """util::MurmurHash64A (== MurmurHashNative on 64-bit builds), little endian."""
    n = len(data)
    h = (seed ^ (n * _M64)) & _MASK
    full = n // 8
    for i in range(full):
        k = int.from_bytes(data[8 * i:8 * i + 8], "little")
        k = (k * _M64) & _MASK
        k ^= k >> 47
        k = (k * _M64) & _MASK
        h ^= k
        h = (h * _M64) & _MASK
    tail = data[8 * full:]
    if tail:
        h ^= int.from_bytes(tail, "little")
        h = (h * _M64) & _MASK
    h ^= h >> 47
    h = (h * _M64) & _MASK
    h ^= h >> 47
    return h


# --------------------------------------------------------------------------- text generators

def _word(rng, u=0.15, cap=0.10):
    r = rng.random()
    if r < u:
        return rng.choice(UTF8_WORDS)
    if r < u + cap:
        return rng.choice(CAP_WORDS)
    return rng.choice(ASCII_WORDS)


def _sentence(rng, lo=3, hi=18, u=0.15, punct=True):
    n = rng.randint(lo, hi)
    toks = []
    for i in range(n):
        w = _word(rng, u)
        if i == 0 and rng.random() < 0.7:
            w = w[:1].upper() + w[1:]
        if punct and rng.random() < 0.12:
            w += rng.choice([",", ";", ":", " -", "/", ")", " (", "-", ", "])
        toks.append(w)
    s = " ".join(toks)
    if punct:
        s += rng.choice([".", ".", ".", "!", "?", "...", "", " ."])
    return s


def _long_line(rng, nbytes, u=0.15):
    out, size = [], 0
    while size < nbytes:
        s = _sentence(rng, 8, 30, u)
        out.append(s)
        size += len(s.encode("utf-8")) + 1
    return " ".join(out).encode("utf-8")


def _corrupt(rng, b):
    pos = rng.randrange(len(b) + 1)
    return b[:pos] + rng.choice(INVALID_SEQS) + b[pos:]


def _text_lines(rng, n, u=0.15, p_empty=0.05, p_crlf=0.08, p_tab=0.10, p_dup=0.15,
                p_invalid=0.0, p_ws=0.0, p_nul=0.0, n_long=2, long_len=(6000, 20000)):
    """list of byte strings WITHOUT the terminating \\n (a trailing \\r marks a CR-LF line)."""
    lines = []
    for _ in range(n):
        r = rng.random()
        if lines and r < p_dup:
            l = rng.choice(lines[-60:])
        elif r < p_dup + p_empty:
            l = b""
        else:
            if rng.random() < p_tab:
                s = "\t".join(_sentence(rng, 1, 8, u) for _ in range(rng.randint(2, 4)))
            else:
                s = _sentence(rng, 1, 22, u)
            l = s.encode("utf-8")
            if rng.random() < p_invalid:
                l = _corrupt(rng, l)
            if rng.random() < p_nul:
                pos = rng.randrange(len(l) + 1)
                l = l[:pos] + b"\0" + l[pos:]
            if rng.random() < p_ws:
                l = rng.choice([b" ", b"  \t", b"\t", b"   "]) + l + rng.choice([b" ", b" \t ", b"\t\t"])
            if rng.random() < p_crlf:
                l += b"\r"
        lines.append(l)
    for _ in range(n_long):
        lines.insert(rng.randrange(len(lines) + 1),
                     _long_line(rng, rng.randint(*long_len), u))
    return lines


def _join(lines, final_newline=True):
    data = b"\n".join(lines)
    return data + b"\n" if final_newline else data


def _b64line(doc):
    return _b64.b64encode(doc)


def _documents(rng, n, u=0.2, p_invalid=0.0, allow_empty=False, p_no_trailing_nl=0.3):
    """plain-text documents (bytes).  Several lines each, some blank lines inside, some CR-LF,
    some without trailing newline, one long one."""
    docs = []
    for i in range(n):
        if allow_empty and rng.random() < 0.04:
            docs.append(b"")
            continue
        nl = rng.randint(1, 14)
        lines = _text_lines(rng, nl, u=u, p_empty=0.08, p_dup=0.05, p_invalid=p_invalid,
                            n_long=0)
        doc = b"\n".join(lines)
        if rng.random() >= p_no_trailing_nl:
            doc += b"\n"
        if not doc and not allow_empty:
            doc = b"x\n"
        docs.append(doc)
    big = _join(_text_lines(rng, 30, u=u, n_long=1, long_len=(9000, 15000)))
    docs.insert(rng.randrange(len(docs) + 1), big)
    return docs


# --------------------------------------------------------------------------- parallel corpus

_PAIRS = [
    ("the", "le"), ("house", "maison"), ("London", "Londres"), ("Paris", "Paris"),
    ("Monday", "lundi"), ("water", "eau"), ("school", "école"),
    ("Greece", "Ελλάδα"),
    ("Moscow", "Москва"), ("coffee", "café"),
    ("Zurich", "Zürich"), ("China", "中国"), ("president", "président"),
    ("European", "européenne"), ("Union", "Union"), ("NATO", "OTAN"), ("UN", "ONU"),
    ("and", "et"), ("of", "de"), ("in", "dans"), ("a", "un"), ("is", "est"), ("was", "était"),
    ("Germany", "Allemagne"), ("French", "français"), ("January", "janvier"),
    ("Mr.", "M."), ("Smith", "Smith"), ("said", "dit"), ("that", "que"), ("world", "monde"),
    ("people", "gens"), ("city", "ville"), ("Tokyo", "Tokyo"), ("Mary", "Marie"),
    ("John", "Jean"), ("hello", "привет"),
    ("street", "rue"), ("river", "fleuve"), ("Seine", "Seine"), ("bank", "banque"),
    ("World", "Mondiale"), ("Bank", "Banque"), ("today", "aujourd'hui"), ("we", "nous"),
    ("they", "ils"), ("cat", "chat"), ("dog", "chien"), ("Africa", "Afrique"),
    ("IBM", "IBM"), ("iPhone", "iPhone"), ("new", "nouveau"), ("York", "York"), ("New", "New"),
    ("to", "à"), ("for", "pour"), ("with", "avec"), ("on", "sur"), ("not", "pas"),
    ("year", "année"), ("Christmas", "Noël"), ("Easter", "Pâques"),
    ("sea", "mer"), ("Mediterranean", "Méditerranée"), (".", "."), (",", ","),
    ("?", "?"), ("(", "("), (")", ")"), ("\"", "\""),
]
_FILLERS = ["de", "la", "les", "du", "des", "l'", "d'", "en"]


def _case_variant(rng, w, style):
    if style == "natural":
        return w
    if style == "upper":
        return w.upper()
    if style == "lower":
        return w.lower()
    return w[:1].upper() + w[1:]


def _parallel_corpus(rng, n, n_discard=3):
    """returns list of dicts: src(list str), tgt(list str), align(list of list of 0-based tgt idx
    per src idx), null(list of tgt idx), discard(bool)"""
    corpus = []
    for s in range(n):
        S = rng.randint(1, 16)
        src, tgt, align, null = [], [], [], []
        for i in range(S):
            sw, tw = rng.choice(_PAIRS)
            r = rng.random()
            if r < 0.06:
                sstyle = "upper"
            elif i == 0 and r < 0.7:
                sstyle = "cap"
            else:
                sstyle = "natural"
            src.append(_case_variant(rng, sw, sstyle))
            if rng.random() < 0.07:
                null.append(len(tgt))
                tgt.append(rng.choice(_FILLERS))
            r = rng.random()
            if r < 0.08:
                align.append([])
                continue
            q = rng.random()
            if sstyle == "upper":
                tstyle = "upper" if q < 0.7 else "natural"
            elif q < 0.82:
                tstyle = "natural"
            elif q < 0.92:
                tstyle = "cap"
            elif q < 0.97:
                tstyle = "lower"
            else:
                tstyle = "upper"
            if i == 0 and rng.random() < 0.8:
                tstyle = "cap"
            here = [len(tgt)]
            tgt.append(_case_variant(rng, tw, tstyle))
            if r > 0.90:
                here.append(len(tgt))
                tgt.append(rng.choice(_FILLERS))
            align.append(here)
        if not tgt:
            tgt.append("oui")
            null.append(0)
        corpus.append({"src": src, "tgt": tgt, "align": align, "null": null, "discard": False})
    for i in rng.sample(range(n), min(n_discard, n)):
        corpus[i]["discard"] = True
    return corpus


def _corpus_files(rng, corpus, p_crlf=0.05, tgt_style=None):
    """(giza_alignment, pharaoh_alignment, source_text, target_text) as bytes."""
    giza, phar, srcs, tgts = [], [], [], []
    for n, c in enumerate(corpus):
        src, tgt = c["src"], c["tgt"]
        S = len(src) + (1 if c["discard"] else 0)   # wrong length => train_case discards the pair
        giza.append("# Sentence pair (%d) source length %d target length %d alignment score : %.6g"
                    % (n + 1, S, len(tgt), rng.random() * 1e-3))
        giza.append(" ".join(t.lower() for t in tgt))
        parts = ["NULL ({ " + "".join("%d " % (j + 1) for j in c["null"]) + "})"]
        for w, a in zip(src, c["align"]):
            parts.append(w + " ({ " + "".join("%d " % (j + 1) for j in a) + "})")
        giza.append(" ".join(parts) + (" " if rng.random() < 0.2 else ""))
        pts = ["%d-%d" % (i, j) for i, a in enumerate(c["align"]) for j in a]
        sep = "\t" if rng.random() < 0.1 else " "
        phar.append(("%d ||| " % n) + sep.join(pts) + (" " if rng.random() < 0.2 else ""))
        eol_s = "\r" if rng.random() < p_crlf else ""
        eol_t = "\r" if rng.random() < p_crlf else ""
        srcs.append(" ".join(src) + eol_s)
        tt = tgt
        if tgt_style == "lower":
            tt = [t.lower() for t in tgt]
        elif tgt_style == "upper":
            tt = [t.upper() for t in tgt]
        # occasional double spaces: SplitLine skips empty tokens
        tgts.append(("  " if rng.random() < 0.1 else " ").join(tt) + eol_t)
    enc = lambda ls: ("\n".join(ls) + "\n").encode("utf-8")
    return enc(giza), enc(phar), enc(srcs), enc(tgts)


def _case_model(corpus):
    """The model train_case would print for `corpus` (lines in sorted key order)."""
    table = {}
    for c in corpus:
        if c["discard"]:
            continue
        for frm, a in enumerate(c["align"]):
            for to in a:
                if frm != 0 and to != 0:
                    s = c["src"][frm].encode("utf-8")
                    t = c["tgt"][to]
                    key = murmur64a(t.lower().encode("utf-8"), murmur64a(s))
                    d = table.setdefault(key, {})
                    d[t] = d.get(t, 0) + 1
    out = []
    for key in sorted(table):
        out.append(str(key) + "".join("\t%s %d" % (w, table[key][w]) for w in sorted(table[key])))
    return ("\n".join(out) + "\n").encode("utf-8")


def _truecase_model(corpus):
    """Moses truecase model: `best (n/total) alt (n/total) ...` one lower-case class per line."""
    counts = {}
    for c in corpus:
        for j, t in enumerate(c["tgt"]):
            if j == 0:
                continue
            d = counts.setdefault(t.lower(), {})
            d[t] = d.get(t, 0) + 1
    out = []
    for low in sorted(counts):
        d = counts[low]
        total = sum(d.values())
        forms = sorted(d, key=lambda w: (-d[w], w))
        out.append(" ".join("%s (%d/%d)" % (w, d[w], total) for w in forms))
    return ("\n".join(out) + "\n").encode("utf-8")


def _truecase_input(rng, corpus, n):
    lines = []
    for _ in range(n):
        if rng.random() < 0.04:
            lines.append("")
            continue
        toks = []
        for _s in range(rng.randint(1, 3)):
            c = rng.choice(corpus)
            body = list(c["tgt"])
            style = rng.random()
            if style < 0.4:
                body = [t.lower() for t in body]
            elif style < 0.55:
                body = [t.upper() for t in body]
            elif style < 0.7:
                body[0] = body[0][:1].upper() + body[0][1:]
            if rng.random() < 0.3:
                body.insert(0, rng.choice(["(", "\"", "'", "&quot;", "&apos;", "[", "&#91;"]))
            if rng.random() < 0.2:
                body.insert(rng.randrange(len(body) + 1), rng.choice(UTF8_WORDS + ["zzzunknown", "Qwerty"]))
            body.append(rng.choice([".", "?", "!", ":", ".", ",", ""]))
            toks.extend(t for t in body if t)
        sep = rng.choice([" ", " ", " ", "  ", "\t", " \t "])
        l = sep.join(toks)
        if rng.random() < 0.1:
            l = " " + l + "  "
        if rng.random() < 0.06:
            l += "\r"
        lines.append(l)
    lines.insert(rng.randrange(len(lines)), " ".join(
        " ".join(t.lower() for t in rng.choice(corpus)["tgt"]) + " ." for _ in range(400)))
    return ("\n".join(lines) + "\n").encode("utf-8")


# --------------------------------------------------------------------------- other structured inputs

_NYT_PARENS = ["(MORE)", "(PICTURE)", "(END OPTIONAL TRIM)", "(BEGIN OPTIONAL TRIM)",
               "(BEGIN BRACKET)", "(END BRACKET)", "(AT SIGN)", "(UNDERSCORE)", "(TILDE)",
               "(ASTERISK)", "(EQUALS)", "(AT)", "(BC-SOME-SLUG-NYT)", "(BC-X)",
               "(not a slug)", "(STORY CAN END HERE. OPTIONAL 2ND TAKE FOLLOWS.)", "(",
               ")", "( END OF TEXT )", "(UNDATED)"]
_ENTITIES = ["&amp;", "&lt;", "&gt;", "&quot;", "&apos;", "&AMP;", "&Lt;", "&nbsp;", "& ;",
             "&", "AT&amp;T", "&amp;amp;"]


def _gigaword(rng, ndocs):
    out = []

    def para_lines(k):
        ls = []
        for _ in range(k):
            s = _sentence(rng, 3, 16, 0.08)
            r = rng.random()
            if r < 0.15:
                s += " " + rng.choice(_NYT_PARENS)
            elif r < 0.3:
                s = s + " " + rng.choice(_ENTITIES) + " " + rng.choice(ASCII_WORDS)
            elif r < 0.4:
                s = "``" + s + "''"
            elif r < 0.47:
                s += "-"
            elif r < 0.5:
                s = ""
            ls.append(s)
            if rng.random() < 0.06:
                ls.append(s)          # consecutive duplicate: dupe_detect
        return ls

    for d in range(ndocs):
        out.append('<DOC id="NYT_ENG_199407%02d.%04d" type="%s" >'
                   % (1 + d % 28, d, rng.choice(["story", "multi", "advis"])))
        if rng.random() < 0.85:
            out += ["<HEADLINE>"] + para_lines(rng.randint(1, 2)) + ["</HEADLINE>"]
        if rng.random() < 0.7:
            out += ["<DATELINE>", rng.choice(["NEW YORK", "PARIS (AP)", "MOSCOW (BC-RUSSIA-NYT)",
                                              "WASHINGTON, July 1"]), "</DATELINE>"]
        out.append("<TEXT>")
        if rng.random() < 0.15:
            out += para_lines(rng.randint(1, 4))          # TEXT without <P>
        else:
            for _ in range(rng.randint(1, 7)):
                out += ["<P>"] + para_lines(rng.randint(1, 6)) + ["</P>"]
        out += ["</TEXT>", "</DOC>"]
        if rng.random() < 0.1:
            out.append("stray line outside any element")
    text = []
    for l in out:
        text.append(l + ("\r" if rng.random() < 0.03 else ""))
    return ("\n".join(text) + "\n").encode("utf-8")


def _warc(rng, nrec, big=1):
    recs = []
    for i in range(nrec):
        kind = rng.choice(["response", "response", "request", "metadata", "warcinfo"])
        nlines = rng.randint(0, 25)
        body = b"HTTP/1.1 200 OK\r\nContent-Type: text/html; charset=utf-8\r\n\r\n"
        body += _join(_text_lines(rng, nlines, u=0.2, p_invalid=0.05, n_long=0)) if nlines else b""
        if rng.random() < 0.2:
            body += bytes(rng.randrange(256) for _ in range(rng.randint(1, 300)))
        if rng.random() < 0.05:
            body = b""
        if i < big:
            body += _long_line(rng, rng.randint(40000, 70000))
        cl = rng.choice(["Content-Length", "Content-Length", "content-length", "CONTENT-LENGTH"])
        hdr = ["WARC/1.0",
               "WARC-Type: " + kind,
               "WARC-Record-ID: <urn:uuid:%08x-%04x-%04x-%04x-%012x>" % (
                   rng.getrandbits(32), rng.getrandbits(16), rng.getrandbits(16),
                   rng.getrandbits(16), rng.getrandbits(48)),
               "WARC-Date: 2019-0%d-1%dT0%d:00:00Z" % (rng.randint(1, 9), rng.randint(0, 9), rng.randint(0, 9)),
               "WARC-Target-URI: http://example%d.com/%s" % (i, rng.choice(ASCII_WORDS))]
        tail = ["Content-Type: application/http; msgtype=" + kind]
        length = "%s:%d" % (cl, len(body))     # no space: the parser uses strtoll (leading blanks ok too)
        if rng.random() < 0.7:
            length = "%s: %d" % (cl, len(body))
        fields = hdr[1:] + tail + [length]
        first = fields[:]
        rng.shuffle(first)
        rec = "\r\n".join([hdr[0]] + first).encode("ascii") + b"\r\n\r\n" + body + b"\r\n\r\n"
        recs.append(rec)
    rng.shuffle(recs)
    return recs


def _substitute_lines(rng, n):
    keys = []
    lines = []
    for i in range(n):
        if keys and rng.random() < 0.45:
            k = rng.choice(keys)
        else:
            k = (_sentence(rng, 2, 9, 0.2), _sentence(rng, 2, 9, 0.2))
            keys.append(k)
        f = ["http://a%d.example/%s" % (rng.randrange(50), rng.choice(ASCII_WORDS)),
             "http://b%d.example/%s" % (rng.randrange(50), rng.choice(ASCII_WORDS)),
             k[0], k[1], "%.4f" % rng.random(), rng.choice(ASCII_WORDS) + str(i)]
        for _ in range(rng.randint(0, 3)):
            f.append(rng.choice(UTF8_WORDS + ASCII_WORDS))
        l = "\t".join(f)
        if rng.random() < 0.05:
            l += "\r"
        lines.append(l)
    lines.insert(rng.randrange(n), "\t".join(
        ["u1", "u2", _long_line(rng, 9000).decode("utf-8"), "short", "0.5", "tail", "more"]))
    return ("\n".join(lines) + "\n").encode("utf-8")


def _cleaning_lines(rng, n, tabbed=False):
    lines = []
    for i in range(n):
        r = rng.random()
        if r < 0.45:
            s = " ".join(_sentence(rng, 6, 20, 0.03) for _ in range(rng.randint(1, 3)))
        elif r < 0.55:
            s = _sentence(rng, 1, 3, 0.1, punct=False)                       # too short
        elif r < 0.62:
            s = " ".join(str(rng.randrange(10 ** 6)) for _ in range(12))       # digits: common script
        elif r < 0.68:
            s = _sentence(rng, 6, 12, 0.0) + " " + rng.choice("axz!-") * rng.randint(4, 9)
        elif r < 0.74:
            s = _sentence(rng, 6, 12, 0.0) + rng.choice(["\x01", "\x1b[0m", "\x0c", "\x7f ok"])
        elif r < 0.80:
            s = " ".join(rng.choice(["привет",
                                     "Москва",
                                     "Ελλάδα", "中文",
                                     "город", "мир"])
                         for _ in range(rng.randint(6, 14))) + "."
        elif r < 0.86:
            s = " ".join(_sentence(rng, 20, 30, 0.0, punct=False) for _ in range(3))  # long, no punctuation
        elif r < 0.90:
            s = ""
        else:
            s = _sentence(rng, 8, 20, 0.5)
        b = s.encode("utf-8")
        if rng.random() < 0.05 and b:
            b = _corrupt(rng, b)
        if tabbed:
            b = (b"id%d\t" % i) + b + b"\t" + rng.choice(ASCII_WORDS).encode() + b" short"
        if rng.random() < 0.06:
            b += b"\r"
        lines.append(b)
    return lines


# --------------------------------------------------------------------------- case builder

class _Builder(object):
    def __init__(self, bindir, workdir):
        self.bindir = bindir
        self.workdir = workdir
        self.cases = []

    def new(self, tool):
        return _Case(self, tool, len(self.cases))


class _Case(object):
    def __init__(self, b, tool, idx):
        self.b, self.tool = b, tool
        self.tag = "c%02d_%s" % (idx, tool)
        self.files, self.outputs = {}, []
        b.cases.append(None)        # reserve the slot so tags stay unique
        self.idx = idx

    def infile(self, name, data):
        rel = self.tag + "." + name
        self.files[rel] = data
        return os.path.join(self.b.workdir, rel)

    def outfile(self, name):
        rel = self.tag + "." + name
        self.outputs.append(rel)
        return os.path.join(self.b.workdir, rel)

    def done(self, args, stdin=b"", note="", **extra):
        d = {"tool": self.tool,
             "argv": [os.path.join(self.b.bindir, self.tool)] + list(args),
             "stdin": stdin,
             "files": self.files,
             "outputs": self.outputs,
             "note": note}
        d.update(extra)
        self.b.cases[self.idx] = d


# --------------------------------------------------------------------------- the catalogue

def tool_cases(bindir, workdir, rng, tier):
    """returns a list of dicts, one per invocation:
       {"tool": name, "argv": [abs path of binary, args...], "stdin": bytes,
        "files": {relative_name: bytes, ...}   # input files to create in workdir before the run (argv refers to them by absolute path workdir/relative_name)
        "outputs": [relative_name, ...]        # files the tool writes in workdir (compare their bytes after the run), may be []
        "note": str}
       Optional extra key: "expect_fail": True for an invocation known not to exit 0.
    """
    bindir = os.path.abspath(bindir)
    workdir = os.path.abspath(workdir)
    thorough = (tier == "thorough")
    N = 1500 if thorough else 400          # lines of generic text
    ND = 220 if thorough else 70           # documents
    for child in (CAT, TR, REV):
        if not os.path.exists(child):
            raise RuntimeError("child command %s not available" % child)
    B = _Builder(bindir, workdir)

    # ---------------------------------------------------------------- train_case / apply_case / truecase
    corpusA = _parallel_corpus(rng, 1200 if thorough else 350, n_discard=4)
    gizaA, pharA, srcA, tgtA = _corpus_files(rng, corpusA)
    c = B.new("train_case")
    c.done([c.infile("giza.A3", gizaA), c.infile("source.txt", srcA), c.infile("target.txt", tgtA)],
           note="GIZA A3 alignment + source + target -> model on stdout; 4 pairs have a wrong "
                "length in the comment line and are discarded; line order and the order of "
                "casings inside a line follow std::unordered_map iteration (stable for one binary)")
    corpusB = _parallel_corpus(rng, 900 if thorough else 250, n_discard=0)
    gizaB, pharB, srcB, tgtB = _corpus_files(rng, corpusB, p_crlf=0.2)
    c = B.new("train_case")
    c.done([c.infile("giza.A3", gizaB), c.infile("source.txt", srcB), c.infile("target.txt", tgtB)],
           note="second corpus, 20% CR-LF lines in source/target, nothing discarded; "
                "unordered_map output order")

    modelA = _case_model(corpusA)
    _, pharL, srcL, tgtL = _corpus_files(rng, corpusA, tgt_style="lower")
    c = B.new("apply_case")
    c.done([c.infile("align.txt", pharL), c.infile("source.txt", srcL),
            c.infile("target.lc.txt", tgtL), c.infile("model.txt", modelA)],
           note="model is what train_case prints for the same corpus (keys are MurmurHash64A "
                "computed in Python); target is lower-cased so most aligned words get re-cased. "
                "Every target line has >= 1 token (an empty one is UB in the tool).")
    _, pharU, srcU, tgtU = _corpus_files(rng, corpusB, tgt_style="upper")
    c = B.new("apply_case")
    c.done([c.infile("align.txt", pharU), c.infile("source.txt", srcU),
            c.infile("target.uc.txt", tgtU), c.infile("model.txt", modelA)],
           note="model of corpus A applied to upper-cased target of corpus B (hits and misses)")

    tcmodel = _truecase_model(corpusA)
    c = B.new("truecase")
    c.done(["--model", c.infile("truecase.model", tcmodel)],
           stdin=_truecase_input(rng, corpusA, N),
           note="Moses-format model `best (n/t) alt (n/t)`; input mixes lower/upper/sentence-case, "
                "sentence enders, delayed sentence starts, unknown and UTF-8 words, runs of "
                "blanks/tabs; valid UTF-8 only")
    c = B.new("truecase")
    c.done(["-model", c.infile("truecase.model", _truecase_model(corpusB))],
           stdin=_truecase_input(rng, corpusB, N // 2),
           note="`-model` spelling, model from corpus B")

    # ---------------------------------------------------------------- base64 family
    docs = _documents(rng, ND, p_invalid=0.0)
    b64in = b"\n".join(_b64line(d) for d in docs) + b"\n"
    c = B.new("b64filter")
    c.done([CAT], stdin=b64in,
           note="child /bin/cat; documents non-empty (empty doc is UB: doc.back()); CR before LF "
                "inside documents is dropped by FilePiece::ReadLine on the way back")
    c = B.new("b64filter")
    c.done([TR, "a-z", "A-Z"], stdin=b64in, note="child tr a-z A-Z (block-buffered child)")
    if thorough:
        c = B.new("b64filter")
        c.done([REV], stdin=b"\n".join(
            _b64line(_join(_text_lines(rng, rng.randint(1, 9), u=0.0, n_long=0, p_crlf=0)))
            for _ in range(ND)) + b"\n", note="child rev, ASCII-only documents")

    docs_bin = _documents(rng, ND, p_invalid=0.15, allow_empty=True)
    b64bin = b"\n".join(_b64line(d) for d in docs_bin) + b"\n"
    c = B.new("base64_number")
    c.done([], stdin=b64bin, note="documents with tabs, CR-LF, invalid UTF-8 and empty documents")
    c = B.new("base64_number")
    c.done([], stdin=b64in[:-1], note="valid documents, no newline after the last base64 line")

    c = B.new("remove_invalid_utf8_base64")
    c.done([], stdin=b64bin, note="~half of the documents contain an invalid UTF-8 sequence")
    c = B.new("remove_invalid_utf8_base64")
    c.done([], stdin=b64in, note="all documents valid (pass-through)")

    # docenc
    enc_docs = [d.replace(b"\n\n", b"\n").strip(b"\n") for d in docs]
    enc_docs = [d for d in enc_docs if d]
    c = B.new("docenc")
    c.done([], stdin=b"\n\n".join(enc_docs) + b"\n",
           note="encode, blank-line separated documents on stdin (CR of CR-LF lines is stripped)")
    c = B.new("docenc")
    c.done(["-0"], stdin=b"\0".join(docs) + b"\0",
           note="encode, NUL separated documents (documents may contain blank lines)")
    c = B.new("docenc")
    c.done(["-d"], stdin=b64bin,
           note="decode everything; prints a `document separator occurs` warning on stderr")
    c = B.new("docenc")
    f1 = c.infile("docs1.b64", b64in)
    f2 = c.infile("docs2.b64", b64bin)
    c.done(["-d", "-n", "-q", "2-7", "11", "%d" % (len(docs) // 2), f1, f2],
           note="decode selected indices from two files with line prefixes; indices restart per file")
    c = B.new("docenc")
    c.done(["-d", "-0", "-q"], stdin=b64bin, note="decode with NUL delimiter")
    c = B.new("docenc")
    c.done(["3-20", "1", c.infile("plain.txt", b"\n\n".join(enc_docs) + b"\n")],
           note="encode a range of documents from a file argument; stops reading early")

    # ---------------------------------------------------------------- cache
    def keyed_lines(n, sep, ascii_only=False):
        keys = ["k%d" % i for i in range(max(5, n // 6))]
        ls = []
        for i in range(n):
            u = 0.0 if ascii_only else 0.2
            f = [rng.choice(keys), _sentence(rng, 1, 8, u, punct=not ascii_only and sep != ","),
                 rng.choice(keys[:7]), str(rng.randrange(1000))]
            l = sep.join(f).encode("utf-8")
            if rng.random() < 0.2 and ls:
                l = rng.choice(ls[-40:])
            if rng.random() < 0.04:
                l = b""
            if not ascii_only and rng.random() < 0.05:
                l += b"\r"
            ls.append(l)
        ls.insert(rng.randrange(n), sep.encode().join(
            [b"klong", _long_line(rng, 12000, 0.0 if ascii_only else 0.2).replace(b",", b";"), b"k1", b"7"]))
        return ls

    c = B.new("cache")
    c.done([CAT], stdin=_join(_text_lines(rng, N, p_dup=0.4)),
           note="whole line is the key, 40% repeated lines, child /bin/cat")
    c = B.new("cache")
    c.done(["-k", "1,3", TR, "a-z", "A-Z"], stdin=_join(keyed_lines(N, "\t")),
           note="key = tab fields 1 and 3: lines sharing a key get the FIRST line's output; child tr")
    c = B.new("cache")
    c.done(["--key", "2", "--field_separator", ",", REV], stdin=_join(keyed_lines(N, ",", True)),
           note="key = comma field 2, child rev, ASCII-only input (rev is locale dependent on UTF-8)")

    # ---------------------------------------------------------------- commoncrawl_dedupe
    def cc_lines(n):
        ls = _text_lines(rng, n, p_dup=0.3, p_invalid=0.08, p_ws=0.3, p_empty=0.05)
        for _ in range(n // 15):
            ls.insert(rng.randrange(len(ls)),
                      b"df6fa1abb58549287111ba8d776733e9 http://example.com/%d uri:x" % rng.randrange(999))
        return ls
    cc = cc_lines(N)
    c = B.new("commoncrawl_dedupe")
    c.done([], stdin=_join(cc), note="stdin only: delimiter lines, duplicates, padded lines, invalid UTF-8")
    c = B.new("commoncrawl_dedupe")
    c.done([c.infile("remove.txt", _join(rng.sample(cc, len(cc) // 3) + _text_lines(rng, 50, n_long=0)))],
           stdin=_join(cc, final_newline=False),
           note="with file_to_remove (a third of the input lines); stdin has no final newline")

    # ---------------------------------------------------------------- dedupe
    dd = _text_lines(rng, N, p_dup=0.35, p_tab=0.5)
    c = B.new("dedupe")
    c.done([], stdin=_join(dd), note="whole-line key; `Kept x / y` goes to stderr")
    c = B.new("dedupe")
    c.done(["-f", "2", ], stdin=_join(keyed_lines(N, "\t")), note="key = tab field 2")
    c = B.new("dedupe")
    c.done(["-f", "1,3-", "-d", ","], stdin=_join(keyed_lines(N, ",")), note="key = comma fields 1,3-")
    en = _text_lines(rng, N, p_dup=0.3, n_long=1)
    fr = _text_lines(rng, len(en) - 1, p_dup=0.3, n_long=1)
    c = B.new("dedupe")
    c.done(["-p", c.infile("in_en", _join(en)), c.infile("in_fr", _join(fr)),
            c.outfile("out_en"), c.outfile("out_fr")],
           note="parallel mode, pair kept only when both sides are new; stdout empty, result in files")

    # ---------------------------------------------------------------- foldfilter
    ff = _join(_text_lines(rng, N, u=0.25, n_long=3))
    c = B.new("foldfilter")
    c.done(["-w", "40", CAT], stdin=ff, note="keep delimiters, width 40, child cat; valid UTF-8 only")
    c = B.new("foldfilter")
    c.done(["-s", "-w", "30", TR, "a-z", "A-Z"], stdin=ff, note="-s: delimiters bypass the child; child tr")
    c = B.new("foldfilter")
    c.done(["-d", ";— ,", "-w", "25", CAT], stdin=ff, note="custom (multi-byte) delimiter list")
    if thorough:
        c = B.new("foldfilter")
        c.done([CAT], stdin=ff, note="default width 80")

    # ---------------------------------------------------------------- gigaword_unwrap
    c = B.new("gigaword_unwrap")
    c.done([], stdin=_gigaword(rng, 120 if thorough else 40),
           note="synthetic Gigaword SGML with NYT parentheticals, ``quotes'', entities, duplicate lines")

    # ---------------------------------------------------------------- idf / vocab / hashes
    generic = _text_lines(rng, N, p_invalid=0.03, p_ws=0.1)
    c = B.new("idf")
    c.done([], stdin=_join(generic),
           note="output order = probing hash table slot order (stable for one binary); doubles "
                "printed via double-conversion")
    c = B.new("vocab")
    c.done([], stdin=_join(_text_lines(rng, N, p_nul=0.05, p_invalid=0.03)),
           note="NUL-separated first occurrences; input contains NUL bytes (a delimiter here)")
    c = B.new("vocab")
    c.done([], stdin=_join(generic, final_newline=False), note="no final newline")
    blob = _join(generic) + bytes(rng.randrange(256) for _ in range(30000))
    c = B.new("mmhsum")
    c.done([], stdin=blob, note="text followed by 30 KB of random bytes")
    if thorough:
        c = B.new("mmhsum")
        c.done([], stdin=blob * 12, note="> 1 MiB so the 1 MiB read buffer is refilled; the hash "
               "is chained per read() chunk -- std::cin.read blocks until the buffer is full, so it "
               "is insensitive to pipe fragmentation")
    c = B.new("order_independent_hash")
    c.done([], stdin=_join(generic), note="sum of line hashes")
    shuffled = list(generic)
    rng.shuffle(shuffled)
    c = B.new("order_independent_hash")
    c.done([], stdin=_join(shuffled), note="same lines shuffled: stdout must equal the previous case",
           same_stdout_as=len(B.cases) - 2)

    # ---------------------------------------------------------------- process_unicode
    pu = _join(_text_lines(rng, N, u=0.4, p_invalid=0.02))
    c = B.new("process_unicode")
    c.done(["--lower"], stdin=pu, note="invalid sequences become U+FFFD")
    c = B.new("process_unicode")
    c.done(["--flatten", "--normalize"], stdin=pu, note="English flatten + NFKC-style normalize")
    c = B.new("process_unicode")
    c.done(["--lower", "--flatten", "--normalize", "-l", "fr"], stdin=pu, note="French flatten table")
    if thorough:
        c = B.new("process_unicode")
        c.done(["--flatten"], stdin=pu, note="odd number of passes: prints str[0] (the input line)")
        c = B.new("process_unicode")
        c.done(["--normalize", "--language", "de"], stdin=pu, note="normalize only")

    # ---------------------------------------------------------------- remove_invalid_utf8 / remove_long_lines
    riu = _text_lines(rng, N, p_invalid=0.25, p_nul=0.02)
    c = B.new("remove_invalid_utf8")
    c.done([], stdin=_join(riu), note="25% of lines carry an invalid sequence")
    c = B.new("remove_invalid_utf8")
    c.done([], stdin=_join(riu, final_newline=False), note="no final newline")
    rll = _text_lines(rng, N, n_long=6, long_len=(1500, 9000))
    c = B.new("remove_long_lines")
    c.done([], stdin=_join(rll), note="default limit 2000 bytes")
    c = B.new("remove_long_lines")
    c.done(["60"], stdin=_join(rll), note="limit 60 bytes")

    # ---------------------------------------------------------------- shard
    sh = _join(keyed_lines(N, "\t") + _text_lines(rng, N // 2))
    c = B.new("shard")
    c.done([c.outfile("s0"), c.outfile("s1"), c.outfile("s2")], stdin=sh,
           note="whole-line key, three plain outputs; stdout empty")
    c = B.new("shard")
    c.done(["-c", "gzip", "-f", "1", c.outfile("g0.gz"), c.outfile("g1.gz")], stdin=sh,
           note="gzip outputs (no timestamp in header: byte-stable), key = tab field 1")
    c = B.new("shard")
    pre = os.path.join(workdir, c.tag + ".p")
    for i in range(3):
        c.outputs.append(c.tag + ".p%d" % i)
    c.done(["--prefix", pre, "--number", "3", "-d", " ", "-f", "1-2"], stdin=sh,
           note="--prefix/--number naming, key = first two space separated fields")
    if thorough:
        c = B.new("shard")
        c.done(["-c", "bzip2", "-o", c.outfile("b0.bz2"), c.outfile("b1.bz2")], stdin=sh,
               note="bzip2 outputs via -o")

    # ---------------------------------------------------------------- simple_cleaning
    cl = _cleaning_lines(rng, N)
    c = B.new("simple_cleaning")
    c.done([], stdin=_join(cl), note="default thresholds")
    c = B.new("simple_cleaning")
    c.done(["--scripts", "Latin", "--min-chars", "20", "--character-run", "4",
            "--max-common-inherited", "0.3"], stdin=_join(cl), note="script filter Latin")
    c = B.new("simple_cleaning")
    c.done(["-f", "2", "--scripts", "Latin", "Cyrillic", "--min-scripts", "0.95", "--min-chars", "10"],
           stdin=_join(_cleaning_lines(rng, N, tabbed=True)),
           note="only tab field 2 is judged; multi-token --scripts")
    cl2 = _cleaning_lines(rng, len(cl))
    c = B.new("simple_cleaning")
    c.done(["-p", c.infile("in_en", _join(cl)), c.infile("in_fr", _join(cl2)),
            c.outfile("out_en"), c.outfile("out_fr")],
           note="parallel mode; stdout empty, result in files")

    # ---------------------------------------------------------------- substitute / subtract_lines
    c = B.new("substitute")
    c.done([], stdin=_substitute_lines(rng, N),
           note=">= 6 non-empty tab fields per line; field 5 is replaced by the value first seen "
                "for the same fields 3-4")
    sl = _text_lines(rng, N, p_dup=0.3)
    c = B.new("subtract_lines")
    c.done([c.infile("subtract.txt", _join(rng.sample(sl, len(sl) // 3) + _text_lines(rng, 80)))],
           stdin=_join(sl), note="a third of the distinct lines are subtracted")
    c = B.new("subtract_lines")
    c.done([c.infile("subtract.txt", _join(_text_lines(rng, 40), final_newline=False))],
           stdin=_join(sl, final_newline=False), note="unrelated subtract file, no final newlines")

    # ---------------------------------------------------------------- warc_parallel
    recs = _warc(rng, 160 if thorough else 60, big=2)
    warc = b"".join(recs)
    c = B.new("warc_parallel")
    c.done(["-j", "1", CAT], stdin=warc,
           note="one worker, stdin: record order preserved. With -j > 1 (default = hardware "
                "concurrency) records come back in scheduling order -- nondeterministic")
    c = B.new("warc_parallel")
    c.done(["-j", "1", "-z", CAT], stdin=warc, note="one gzip member per record on stdout")
    c = B.new("warc_parallel")
    c.done(["-i", c.infile("in.warc", warc), "-j", "1", "--", TR, "a-z", "A-Z"],
           note="--inputs with one file (several files are read by racing threads), child tr: "
                "headers are upper-cased, Content-Length is matched case-insensitively")
    c = B.new("warc_parallel")
    gz = b"".join(_gzip.compress(r, 6, mtime=0) for r in recs)
    c.done(["--jobs", "1", "--inputs", c.infile("in.warc.gz", gz), "--", CAT],
           note="multi-member gzip input (one member per record, as in real WARC files)")

    cases = B.cases
    assert all(x is not None for x in cases)
    missing = set(ALL_TOOLS) - set(x["tool"] for x in cases)
    assert not missing, missing
    return cases


# --------------------------------------------------------------------------- self test

def _run_case(case, workdir, timeout=20):
    import subprocess
    for rel, data in case["files"].items():
        with open(os.path.join(workdir, rel), "wb") as f:
            f.write(data)
    for rel in case["outputs"]:
        p = os.path.join(workdir, rel)
        if os.path.exists(p):
            os.unlink(p)
    try:
        p = subprocess.run(case["argv"], input=case["stdin"], stdout=subprocess.PIPE,
                           stderr=subprocess.PIPE, timeout=timeout, cwd=workdir)
    except subprocess.TimeoutExpired:
        return None
    outs = {}
    for rel in case["outputs"]:
        path = os.path.join(workdir, rel)
        outs[rel] = open(path, "rb").read() if os.path.exists(path) else None
    return p.returncode, p.stdout, p.stderr, outs


def _selftest(bindir, tier="quick", scratch="/var/tmp/agent-C/scratch-tools"):
    import random
    import shutil
    import tempfile
    import time
    os.makedirs(scratch, exist_ok=True)
    workdir = tempfile.mkdtemp(prefix="c03_", dir=scratch)
    bad = 0
    try:
        cases = tool_cases(bindir, workdir, random.Random(1), tier)
        again = tool_cases(bindir, workdir, random.Random(1), tier)
        if cases != again:
            print("FAIL: tool_cases is not a deterministic function of rng")
            bad += 1
        seen = {}
        for i, case in enumerate(cases):
            assert case["argv"][0] == os.path.join(os.path.abspath(bindir), case["tool"])
            t0 = time.time()
            r1 = _run_case(case, workdir)
            dt = time.time() - t0
            r2 = _run_case(case, workdir) if r1 is not None else None
            in_bytes = len(case["stdin"]) + sum(len(v) for v in case["files"].values())
            if r1 is None or r2 is None:
                status, ok = "TIMEOUT", False
                print("%-2d %-26s %s  args=%s" % (i, case["tool"], status, case["argv"][1:]))
            else:
                rc, out, err, outs = r1
                same = (r1[0], r1[1], r1[3]) == (r2[0], r2[1], r2[3])
                sizes = {k.split(".", 1)[1]: (len(v) if v is not None else None) for k, v in outs.items()}
                nonempty = len(out) > 0 or any(v for v in outs.values())
                missing = any(v is None for v in outs.values())
                ok = (rc == 0) and same and nonempty and not missing
                if "same_stdout_as" in case and cases[case["same_stdout_as"]].get("_stdout") != out:
                    ok = False
                    print("   stdout differs from case %d" % case["same_stdout_as"])
                case["_stdout"] = out
                print("%-2d %-26s rc=%-3d in=%-7d stdout=%-7d files=%s identical=%s %.2fs%s"
                      % (i, case["tool"], rc, in_bytes, len(out), sizes, same, dt,
                         "" if ok else "   <<<<<< FAIL"))
                if not ok:
                    print("   argv:", case["argv"])
                    print("   stderr:", err[-600:])
                if dt > 2.0:
                    print("   WARNING: slow (%.2fs)" % dt)
            if case.get("expect_fail"):
                ok = True
            if not ok:
                bad += 1
            seen.setdefault(case["tool"], []).append(ok)
        print()
        for t in ALL_TOOLS:
            rs = seen.get(t, [])
            print("%-28s %d invocation(s) %s" % (t, len(rs), "ok" if rs and all(rs) else "FAIL"))
            if not rs:
                bad += 1
    finally:
        shutil.rmtree(workdir, ignore_errors=True)
    print("\n%s" % ("ALL OK" if not bad else "%d problem(s)" % bad))
    return 1 if bad else 0


if __name__ == "__main__":
    _bindir = sys.argv[1] if len(sys.argv) > 1 else "/var/tmp/agent-C/build/rel/repo/bin"
    _tier = sys.argv[2] if len(sys.argv) > 2 else "quick"
    sys.exit(_selftest(_bindir, _tier))
