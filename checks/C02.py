"""C02 -- the line reader (util::FilePiece) yields exactly the input's records for any
source and chunking."""
import bz2
import gzip
import itertools
import lzma
import os
import shutil
import sys
import struct
import tempfile
import zlib

sys.path.insert(0, os.path.join(os.path.dirname(os.path.abspath(__file__)), "..", "tools"))
from checklib import *  # noqa

SCRATCH = os.path.join(BUILD_ROOT, "scratch-C02")
MAGICS = (b"\x1f\x8b", b"BZh", b"\xfd7zXZ\x00")


def py_records(data, delim=10, cr=True):
    """The specification, independently of Coq: split at the delimiter, strip one CR from
    terminated records, keep empty records, keep a non-empty unterminated tail."""
    parts = data.split(bytes([delim]))
    tail = parts.pop()
    recs = [p[:-1] if (cr and p.endswith(b"\r")) else p for p in parts]
    if tail:
        recs.append(tail)
    return recs


def hx(b):
    return b.hex() if b else "-"


def compositions(n):
    """all ways to cut n bytes into fragments (lists of positive sizes)"""
    if n == 0:
        yield []
        return
    for mask in range(1 << (n - 1)):
        out, cur = [], 1
        for i in range(n - 1):
            if mask >> i & 1:
                out.append(cur)
                cur = 1
            else:
                cur += 1
        out.append(cur)
        yield out


def script_of(frag):
    return ",".join("S%d" % k for k in frag) if frag else "-"


def no_magic(b):
    return not any(b.startswith(m) for m in MAGICS)


def gen_cases(c):
    """returns dict page -> list of (line, meta) ; meta = (kind, src, delim, cr)"""
    rng = c.rng
    by_page = {}

    def add(page, line, kind, src, delim, cr, bucket):
        by_page.setdefault(page, []).append((line, (kind, src, delim, cr)))
        c.count(line, nontrivial=len(src) > 0, bucket=bucket)

    # 1. exhaustive: every input over {a, \n, \r} up to length N, every fragmentation
    #    (page 1, min_buffer 1: window of 2 bytes that must double and compact)
    N = 8
    alpha = (0x61, 0x0a, 0x0d)
    for n in range(0, N + 1):
        comps = list(compositions(n))
        for tup in itertools.product(alpha, repeat=n):
            src = bytes(tup)
            h = hx(src)
            for frag in comps:
                add(1, "R 1 1 10 1 0 %s %s" % (h, script_of(frag)), "R", src, 10, True, "read/exhaustive-abc-len<=%d" % N)
    if c.tier == "thorough":
        # the same sweep up to length 7 with a 3-byte window
        for n in range(0, 8):
            comps = list(compositions(n))
            for tup in itertools.product(alpha, repeat=n):
                h = hx(bytes(tup))
                for frag in comps:
                    add(1, "R 1 2 10 1 0 %s %s" % (h, script_of(frag)), "R", bytes(tup), 10, True, "read/exhaustive-abc-len<=7-window3")
    # 2. the same inputs up to length 6 with other window sizes, APIs, no CR stripping, other delimiter
    for n in range(0, 7 if c.tier == "quick" else 8):
        comps = list(compositions(n))
        for tup in itertools.product(alpha, repeat=n):
            src = bytes(tup)
            h = hx(src)
            for page, minb in ((1, 2), (3, 1)):
                frag = rng.choice(comps)
                add(page, "R %d %d 10 1 %d %s %s" % (page, minb, rng.choice((0, 1, 2)), h, script_of(frag)), "R", src, 10, True, "read/small-other-window")
            frag = rng.choice(comps)
            add(1, "R 1 1 10 0 %d %s %s" % (rng.choice((0, 1)), h, script_of(frag)), "R", src, 10, False, "read/no-strip-cr")
            add(1, "R 1 1 13 1 0 %s %s" % (h, script_of(rng.choice(comps))), "R", src, 13, True, "read/delim=CR")
            add(1, "I 1 1 10 1 %d %s" % (rng.choice((0, 1, 2)), h), "I", src, 10, True, "istream/small")
    # 2b. plain inputs starting with every proper prefix / near miss of a compression magic number: they are NOT
    #     compressed and must be read as text (pipe, istream, regular file at offset 0 and at unaligned offsets, failing mmap)
    P0 = os.sysconf("SC_PAGE_SIZE")
    near = [b"\x1f", b"\x1f\x8c", b"\x1f\x0a\x8b", b"\x8b\x1f", b"B", b"BZ", b"BZH", b"BZi", b"BZ 1234", b"BZ\n", b"Bzh", b"bZh",
            b"\xfd", b"\xfd7zX", b"\xfd7zXZ", b"\xfd7zXZ\x01", b"\xfd7zXZ\n", b"\xfd7zXz\x00", b"7zXZ\x00"]
    for pre in near:
        for tail in (b"", b"\n", b" more text\r\nsecond line\n\nunterminated"):
            src = pre + tail
            if not no_magic(src):
                continue
            h = hx(src)
            for page in (1, P0):
                sc = rng.choice(("-", "S1", "S2,S1", "S1,E,S1,S1,S1,S1", "S5"))
                add(page, "R %d 1 10 1 %d %s %s" % (page, rng.choice((0, 1, 2)), h, sc), "R", src, 10, True, "near-miss-magic/pipe")
                add(page, "I %d 1 10 1 0 %s" % (page, h), "I", src, 10, True, "near-miss-magic/istream")
                add(page, "M %d 1 10 1 0 %s 0 -" % (page, h), "M", src, 10, True, "near-miss-magic/file")
                add(page, "M %d 1 10 1 0 %s 0 - F0" % (page, h), "M", src, 10, True, "near-miss-magic/file-mmap-fails")
                for off in (1, 3, 7):
                    junk = (b"x\n" * 8)[:off]
                    add(page, "M %d 1 10 1 0 %s %d -" % (page, hx(junk + src), off), "M", src, 10, True, "near-miss-magic/file-at-offset")
    # 3. EINTR / short mixes and records longer than the window, CR and delimiter on window edges
    nrand = 4000 if c.tier == "quick" else 40000
    for _ in range(nrand):
        page = rng.choice((1, 1, 2, 3, 4, 7))
        minb = rng.choice((1, 1, 2, 5, 9))
        cap = page * max(minb // page + 1, 2)
        recs = []
        for _ in range(rng.randrange(0, 5)):
            ln = rng.choice((0, 1, cap - 2, cap - 1, cap, cap + 1, 2 * cap - 1, 2 * cap, 2 * cap + 1, 4 * cap + 1, rng.randrange(0, 40)))
            body = bytes(rng.choice((0x61, 0x62, 0x0d, 0x00, 0xff, 0x20)) for _ in range(max(ln, 0)))
            if rng.random() < 0.4:
                body += b"\r"
            recs.append(body)
        src = b"\n".join(recs)
        if rng.random() < 0.7:
            src += b"\n"
        if not no_magic(src):
            continue
        script = []
        for _ in range(rng.randrange(0, 30)):
            r = rng.random()
            script.append("E" if r < 0.2 else ("F" if r < 0.35 else "S%d" % rng.choice((1, 1, 2, 3, 5, cap - 1 or 1, cap, cap + 1))))
        delim, cr = (10, True) if rng.random() < 0.8 else (rng.choice((10, 13, 0x61)), rng.random() < 0.5)
        api = rng.choice((0, 1, 2)) if cr else rng.choice((0, 1))
        add(page, "R %d %d %d %d %d %s %s" % (page, minb, delim, 1 if cr else 0, api, hx(src), ",".join(script) or "-"), "R", src, delim, cr, "read/random-window-edges")
    # 4. regular files through the (emulated) mmap path: all start offsets, window doubling
    nm = 3000 if c.tier == "quick" else 30000
    for _ in range(nm):
        page = rng.choice((1, 2, 3, 4, 8))
        minb = rng.choice((1, 1, 2, 7))
        cap = page * max(minb // page + 1, 2)
        total = rng.choice((0, 1, page - 1, page, page + 1, cap - 1, cap, cap + 1, 2 * cap, 2 * cap + 1, 3 * cap - 1, 4 * cap, rng.randrange(0, 6 * cap + 2)))
        total = max(total, 0)
        src = bytearray(rng.choice((0x61, 0x61, 0x61, 0x0a, 0x0d, 0x62)) for _ in range(total))
        if rng.random() < 0.3 and total > 0:
            # one long record spanning several windows
            for i in range(total):
                if src[i] == 0x0a and rng.random() < 0.9:
                    src[i] = 0x63
        src = bytes(src)
        off = rng.choice((0, 0, 0, 1, page, page + 1, 2 * page, total, max(total - 1, 0), rng.randrange(0, total + 1)))
        off = min(off, total)
        if not no_magic(src[off:]) or not no_magic(src[off - off % page:]):
            continue
        delim, cr = (10, True) if rng.random() < 0.8 else (rng.choice((10, 13)), rng.random() < 0.5)
        api = rng.choice((0, 1, 2)) if cr else rng.choice((0, 1))
        if rng.random() < 0.2:
            sc = ",".join(rng.choice(("S1", "S2", "E", "F", "S%d" % cap)) for _ in range(rng.randrange(0, 8))) or "-"
            add(page, "M %d %d %d %d %d %s %d %s F0" % (page, minb, delim, 1 if cr else 0, api, hx(src), off, sc), "M", src[off:], delim, cr, "mmap-emulated/first-mmap-fails")
        else:
            add(page, "M %d %d %d %d %d %s %d -" % (page, minb, delim, 1 if cr else 0, api, hx(src), off), "M", src[off:], delim, cr, "mmap-emulated/random")
    # 5. real page size: real mmap, files at sizes around page multiples, pipe with big windows
    P = os.sysconf("SC_PAGE_SIZE")
    sizes = [0, 1, P - 1, P, P + 1, 2 * P - 1, 2 * P, 2 * P + 1, 3 * P, 4 * P, 4 * P + 1, 5 * P - 1, 8 * P, 8 * P + 3]
    for total in sizes:
        for variant in range(3 if c.tier == "quick" else 8):
            if variant == 0:
                src = bytes(0x61 + (i % 7) for i in range(total))          # one record, no delimiter
            else:
                src = bytearray(rng.choice((0x61, 0x62, 0x0d)) for _ in range(total))
                for _ in range(rng.randrange(1, 6)):
                    if total:
                        p = rng.choice((0, total - 1, min(total - 1, P - 1), min(total - 1, P), min(total - 1, 2 * P - 1), min(total - 1, 2 * P), rng.randrange(total)))
                        src[p] = 0x0a
                        if p and rng.random() < 0.5:
                            src[p - 1] = 0x0d
                src = bytes(src)
            for off in (0, 1, P - 1, P, P + 1, 2 * P, total):
                if off > total or (off and variant > 1 and rng.random() < 0.5):
                    continue
                if not no_magic(src[off:]) or not no_magic(src[off - off % P:]):
                    continue
                add(P, "M %d 1 10 1 %d %s %d -" % (P, rng.choice((0, 1, 2)), hx(src), off), "M", src[off:], 10, True, "mmap-real/page-multiples")
            for off in (1, 7, 5003, P - 1, P, P + 1, 0):
                if variant < 2 and off <= total and no_magic(src[off:]):
                    add(P, "M %d 1 10 1 %d %s %d %s F0" % (P, rng.choice((0, 1, 2)), hx(src), off, rng.choice(("-", "S1,S3", "E,S%d" % P))), "M", src[off:], 10, True, "mmap-real/first-mmap-fails")
            if no_magic(src):
                script = ",".join(rng.choice(("S1", "S%d" % P, "S%d" % (P + 1), "E", "F", "S%d" % (2 * P), "S4095")) for _ in range(rng.randrange(0, 12))) or "-"
                add(P, "R %d 1 10 1 %d %s %s" % (P, rng.choice((0, 1, 2)), hx(src), script), "R", src, 10, True, "read-real/page-multiples")
                add(P, "I %d 1 10 1 0 %s" % (P, hx(src)), "I", src, 10, True, "istream/page-multiples")
    return by_page


def parse_out(o):
    """recs=[..][..] trace=.. maps=.. eof=TT -> (records, trace, maps, eof) or None"""
    if not o.startswith("recs="):
        return None
    try:
        f = dict(p.split("=", 1) for p in o.split(" "))
        recs = [bytes.fromhex(x) for x in f["recs"].replace("]", "").split("[")[1:]] if f["recs"] else []
        trace = [tuple(int(v) for v in p.split(":")) for p in f["trace"].split(",")] if f["trace"] else []
        return recs, trace, f["maps"], f["eof"]
    except Exception:
        return None


# ---------------------------------------------------------------- compressed streams with crafted geometry

def gz_member(data, total=None):
    """one gzip member for `data`; when `total` is given the member is exactly `total` bytes long
    (padded through the header's FNAME field, which every inflater skips)"""
    co = zlib.compressobj(9, zlib.DEFLATED, -15)
    raw = co.compress(data) + co.flush()
    trailer = struct.pack("<II", zlib.crc32(data) & 0xFFFFFFFF, len(data) & 0xFFFFFFFF)
    base = 10 + len(raw) + 8
    if total is None or total == base:
        return b"\x1f\x8b\x08\x00" + b"\0" * 4 + b"\x02\xff" + raw + trailer
    pad = total - base
    if pad < 1:
        raise ValueError("gzip member cannot be made that small")
    return b"\x1f\x8b\x08\x08" + b"\0" * 4 + b"\x02\xff" + b"n" * (pad - 1) + b"\0" + raw + trailer


def text_lines(rng, nbytes, tag):
    out = []
    n = 0
    i = 0
    while n < nbytes:
        l = ("%s %d %s" % (tag, i, "%x" % rng.getrandbits(rng.choice((8, 64, 256))))).encode()
        if rng.random() < 0.1:
            l += b"\r"
        out.append(l)
        n += len(l) + 1
        i += 1
    return b"\n".join(out) + b"\n"


def compressed_cases(c, refill):
    """(name, stream, plain, first_fragment_script) for the compressed backings whose behaviour depends on
    where things fall relative to the decompressing reader's input buffer: after the 6 magic bytes the
    reader refills `refill` (kInputBuffer) bytes at a time, so refill boundaries are at 6 + refill*j.
      * member boundaries exactly on / one byte before / one byte after every such boundary (j = 1, 2),
        for a gz, bz2 and xz member ending there (a FNAME-padded gzip member in front sets the offset);
      * streams whose first pipe fragment is shorter than the magic number (1..5 bytes)."""
    rng = c.rng
    codecs = {"gz": lambda x: gzip.compress(x, 6), "bz2": lambda x: bz2.compress(x, 1), "xz": lambda x: lzma.compress(x, preset=0)}
    out = []
    for j in (1, 2):
        for delta in (-1, 0, 1):
            target = 6 + refill * j + delta
            # a single gzip member ending there
            d1, d2 = text_lines(rng, 9000, "first"), text_lines(rng, 1500, "second") + b"unterminated tail"
            d3 = text_lines(rng, 300, "third")
            try:
                out.append(("gz-member-ends-at-refill*%d%+d" % (j, delta), gz_member(d1, target) + gzip.compress(d2, 1) + bz2.compress(d3, 1), d1 + d2 + d3, "-"))
            except ValueError:
                pass
            for name, comp in sorted(codecs.items()):
                d1, d2, d3 = text_lines(rng, 5000, "a"), text_lines(rng, rng.choice((200, 3000)), "b"), text_lines(rng, 400, "c")
                m2 = comp(d2)
                m3 = codecs[rng.choice(sorted(codecs))](d3)
                try:
                    m1 = gz_member(d1, target - len(m2))
                except ValueError:
                    continue
                out.append(("gz+%s-member-ends-at-refill*%d%+d" % (name, j, delta), m1 + m2 + m3, d1 + d2 + d3, "-"))
    # every xz preset (dictionary sizes 256 KiB ... 64 MiB: the decoder must accept them all)
    for preset in list(range(10)) + [9 | lzma.PRESET_EXTREME]:
        d = text_lines(rng, 1500, "xz%d" % (preset & 15))
        out.append(("xz-preset-%d%s" % (preset & 15, "e" if preset > 9 else ""), lzma.compress(d, preset=preset), d, "-"))
    # first fragment shorter than the magic; also later short reads so that a follow-on member's header straddles reads
    for name, comp in sorted(codecs.items()):
        for k in (1, 2, 3, 4, 5):
            d = text_lines(rng, 2000, name)
            out.append(("%s-first-fragment-%d" % (name, k), comp(d), d, "S%d" % k))
        d1, d2 = text_lines(rng, 700, "m1"), text_lines(rng, 700, "m2")
        sc = ",".join(rng.choice(("S1", "S2", "S3", "S5", "E", "S100", "S%d" % refill)) for _ in range(40))
        out.append(("%s+%s-random-short-reads" % (name, name), comp(d1) + comp(d2), d1 + d2, sc))
    return out


def compressed_level(c, impl, vfio):
    """compressed backings with crafted geometry, through util::FilePiece (harness, scripted read()) and through
    bin/remove_long_lines (regular file, pipe, pipe under libvfio with the same first-fragment script);
    oracle: the records of the plain text."""
    import re
    try:
        refill = int(re.search(r"rc_input_buffer : N := (\d+)%N", open(os.path.join(COQ, "theories", "Gen", "Src_filepiece.v")).read()).group(1))
    except Exception:
        refill = 16384
    P = os.sysconf("SC_PAGE_SIZE")
    os.environ.pop("HX_PAGESIZE", None)
    cases = compressed_cases(c, refill)
    lines = ["R %d 1 10 1 %d %s %s" % (P, i % 3, blob.hex(), sc) for i, (name, blob, plain, sc) in enumerate(cases)]
    outs, deaths = run_lines_resilient(impl, lines, 120, None, 3)
    for idx, rc, err in deaths:
        c.violation("harness-died: util::FilePiece crashed or hung (rc %s) on compressed case %s" % (rc, cases[idx][0]),
                    {"case": cases[idx][0], "stream_hex": cases[idx][1].hex(), "script": cases[idx][3]})
    exe = repo_bin("remove_long_lines")
    for (name, blob, plain, sc), line, o in zip(cases, lines, outs):
        want = py_records(plain)
        c.count(("Z", name), nontrivial=True, bucket="compressed-geometry/" + re.sub(r"\*\d+[+-]\d+|-\d+e?$", "", name))
        if o is not None:
            got = parse_out(o)
            if got is None or got[0] != want or got[3] != "TT":
                nrec = len(got[0]) if got else 0
                c.violation("compressed-records-differ: FilePiece on %s (%d compressed bytes, read() script %s) returned %s, the plain text has %d records" % (
                    name, len(blob), sc, ("%d records" % nrec) if got else o[:60], len(want)),
                    {"case": name, "stream_hex": blob.hex(), "script": sc, "plain_hex": plain.hex(), "records_got": nrec, "records_want": len(want),
                     "how": "hx_filepiece <<< 'R %d 1 10 1 0 <stream_hex> %s'" % (P, sc)})
        wantb = b"".join(r + b"\n" for r in want)
        runs = []
        if sc == "-":
            path = os.path.join(SCRATCH, "z.bin")
            with open(path, "wb") as f:
                f.write(blob)
            with open(path, "rb") as f:
                try:
                    p = subprocess.run([exe, "1000000000"], stdin=f, stdout=subprocess.PIPE, stderr=subprocess.PIPE, timeout=25)
                    runs.append(("regular file", p.returncode, p.stdout))
                except subprocess.TimeoutExpired:
                    runs.append(("regular file", "timeout", b""))
            st, out, _ = run_tool([exe, "1000000000"], stdin=blob, timeout=25)
            runs.append(("pipe", st, out))
        elif vfio and "," not in sc:
            env = dict(os.environ, LD_PRELOAD=vfio, VFIO_SCRIPT=sc, VFIO_FDS="0", VFIO_OPS="r")
            st, out, _ = run_tool([exe, "1000000000"], stdin=blob, timeout=25, env=env)
            runs.append(("pipe whose first read() returns %s byte(s)" % sc[1:], st, out))
        for via, st, out in runs:
            c.count(("Ztool", name, via), nontrivial=True, bucket="compressed-geometry/tool-" + via.split(" ")[0])
            if st != 0 or out != wantb:
                c.violation("compressed-tool-records: remove_long_lines 1000000000 on %s via %s: status %s, %d output bytes, the plain text's records make %d" % (
                    name, via, st, len(out), len(wantb)),
                    {"tool": "remove_long_lines 1000000000", "case": name, "via": via, "stdin_hex": blob.hex(), "script_on_fd0": sc, "status": st,
                     "got_len": len(out), "want_len": len(wantb)})

    # regular file handed over at a start offset that is not a page multiple, a compressed stream (or plain text,
    # as control) starting there: the magic must be looked for at the read position, not at the start of the mapping
    rng = c.rng
    codecs = {"gz": lambda x: gzip.compress(x, 6), "bz2": lambda x: bz2.compress(x, 1), "xz": lambda x: lzma.compress(x, preset=0),
              "plain": lambda x: x}
    ocases = []
    for off in (1, 10, 5000, P - 1, P + 1, 2 * P + 7, P):
        for name in sorted(codecs):
            plain = text_lines(rng, rng.choice((300, 3000, 3 * P)), name)
            for pname, prefix in (("text", (b"skipped line\n" * (off // 13 + 1))[:off]), ("gzmagic", (b"\x1f\x8b\x08" + b"q" * off)[:off])):
                if pname == "gzmagic" and (name != "plain" or off < 6):
                    continue
                ocases.append(("%s-at-file-offset-%d-after-%s" % (name, off, pname), prefix + codecs[name](plain), off, plain))
    olines = ["M %d 1 10 1 %d %s %d -" % (P, i % 3, blob.hex(), off) for i, (name, blob, off, plain) in enumerate(ocases)]
    outs, deaths = run_lines_resilient(impl, olines, 120, None, 3)
    for idx, rc, err in deaths:
        c.violation("harness-died: util::FilePiece crashed or hung (rc %s) on %s" % (rc, ocases[idx][0]),
                    {"case": ocases[idx][0], "file_hex": ocases[idx][1].hex(), "offset": ocases[idx][2]})
    for (name, blob, off, plain), line, o in zip(ocases, olines, outs):
        want = py_records(plain)
        c.count(("Zoff", name), nontrivial=True, bucket="compressed-geometry/" + re.sub(r"-at-file-offset-\d+", "-at-unaligned-file-offset" if off % P else "-at-aligned-file-offset", name))
        if o is not None:
            got = parse_out(o)
            if got is None or got[0] != want or got[3] != "TT":
                nrec = len(got[0]) if got else 0
                c.violation("offset-stream-records-differ: FilePiece on a regular file positioned at offset %d (%s): returned %s, the text starting there has %d records" % (
                    off, name, ("%d records" % nrec) if got else o[:60], len(want)),
                    {"case": name, "file_hex": blob.hex(), "offset": off, "plain_hex": plain.hex(), "records_got": nrec, "records_want": len(want),
                     "how": "hx_filepiece <<< 'M %d 1 10 1 0 <file_hex> %d -'   or   (dd bs=%d count=1 >/dev/null; remove_long_lines 1000000000) < file" % (P, off, off)})
        wantb = b"".join(r + b"\n" for r in want)
        path = os.path.join(SCRATCH, "zoff.bin")
        with open(path, "wb") as f:
            f.write(blob)
        fd = os.open(path, os.O_RDONLY)
        try:
            os.lseek(fd, off, os.SEEK_SET)
            try:
                pr = subprocess.run([exe, "1000000000"], stdin=fd, stdout=subprocess.PIPE, stderr=subprocess.PIPE, timeout=25)
                st, out = pr.returncode, pr.stdout
            except subprocess.TimeoutExpired:
                st, out = "timeout", b""
        finally:
            os.close(fd)
        c.count(("Zofftool", name), nontrivial=True, bucket="compressed-geometry/tool-regular-file-at-offset")
        if st != 0 or out != wantb:
            c.violation("offset-stream-tool-records: remove_long_lines 1000000000 with stdin = regular file positioned at offset %d (%s): status %s, %d output bytes, expected %d" % (
                off, name, st, len(out), len(wantb)),
                {"tool": "remove_long_lines 1000000000", "case": name, "file_hex": blob.hex(), "offset": off, "status": st,
                 "how": "(dd bs=%d count=1 >/dev/null; remove_long_lines 1000000000) < file" % off})

    # seekable files on which mmap fails (st_size 0: mmap of 0 bytes = EINVAL), descriptor already advanced
    for pf in ("/proc/version", "/proc/filesystems"):
        try:
            with open(pf, "rb") as f:
                content = f.read()
        except OSError:
            continue
        for off in (0, 1, 3, 17):
            if off > len(content) or not no_magic(content[off:]):
                continue
            fd = os.open(pf, os.O_RDONLY)
            try:
                os.lseek(fd, off, os.SEEK_SET)
                try:
                    pr = subprocess.run([exe, "1000000000"], stdin=fd, stdout=subprocess.PIPE, stderr=subprocess.PIPE, timeout=25)
                    st, out = pr.returncode, pr.stdout
                except subprocess.TimeoutExpired:
                    st, out = "timeout", b""
            finally:
                os.close(fd)
            wantb = b"".join(r + b"\n" for r in py_records(content[off:]))
            c.count(("procfile", pf, off), nontrivial=True, bucket="compressed-geometry/tool-unmappable-file-at-offset")
            if st != 0 or out != wantb:
                c.violation("unmappable-file-records: remove_long_lines 1000000000 with stdin = %s positioned at offset %d: status %s, output %r..., expected %r..." % (
                    pf, off, st, out[:40], wantb[:40]),
                    {"tool": "remove_long_lines 1000000000", "file": pf, "offset": off, "status": st, "got_hex": out[:200].hex(), "want_hex": wantb[:200].hex(),
                     "how": "(dd bs=%d count=1 >/dev/null; remove_long_lines 1000000000) < %s" % (max(off, 1), pf)})


def tool_level(c, have_vfio):
    """bin/remove_long_lines with a huge limit is the identity on records."""
    rng = c.rng
    exe = repo_bin("remove_long_lines")
    os.makedirs(SCRATCH, exist_ok=True)
    P = os.sysconf("SC_PAGE_SIZE")
    inputs = [b"", b"\n", b"a", b"a\n", b"a\r\n", b"\r\n\r\n", b"a\r", b"a\n\nb", b"x" * (P - 1) + b"\n", b"x" * P + b"\n" + b"y" * P,
              b"\r" * 5 + b"\n" + b"z" * (2 * P - 1) + b"\r\n", (b"line %d\r\n" * 3000) % tuple(range(3000))]
    for _ in range(6 if c.tier == "quick" else 40):
        n = rng.choice((P - 1, P, P + 1, 2 * P, 3 * P + 1, 70000, 1048576 + 4096 - 1, 1048576 + 4096, 2 * (1048576 + 4096) + 1, rng.randrange(1, 200000)))
        b = bytearray(rng.choice(b"abc \r") for _ in range(n))
        for _ in range(rng.randrange(0, 50)):
            b[rng.randrange(n)] = 10
        if rng.random() < 0.5:
            b[-1] = 10
        inputs.append(bytes(b))
    # plain text starting with near misses of the magic numbers
    for pre in (b"\x1f", b"\x1f\x8c", b"BZ", b"BZH", b"BZip2 is a tool", b"BZ 1234 5678", b"\xfd7zXZ", b"\xfd7zXZ\x01"):
        inputs.append(pre)
        inputs.append(pre + b" rest of the first line\nsecond line\r\n" + b"z" * 5000 + b"\n")
    # one record longer than the default window (forces the doubling of the 1 MiB window)
    inputs.append(b"q" * (3 * 1048576) + b"\r\n" + b"tail")
    n = 0
    for data in inputs:
        if not no_magic(data):
            continue
        if len(c.violations) >= 3:
            break          # enough concrete failing inputs; do not sit through more timeouts
        want = b"".join(r + b"\n" for r in py_records(data))
        backings = [("file", data), ("pipe", data), ("gz", gzip.compress(data, 1)), ("bz2", bz2.compress(data, 1)),
                    ("xz", lzma.compress(data, preset=0))]
        # concatenated members: cut at arbitrary points, each part compressed with a different codec
        if len(data) >= 2:
            cut = sorted(rng.sample(range(1, len(data)), min(2, len(data) - 1)))
            parts = [data[:cut[0]]] + [data[a:b] for a, b in zip(cut, cut[1:])] + [data[cut[-1]:]]
            codecs = [lambda x: gzip.compress(x, 1), lambda x: bz2.compress(x, 1), lambda x: lzma.compress(x, preset=0)]
            multi = b"".join(rng.choice(codecs)(p) for p in parts)
            backings.append(("multi-member", multi))
            backings.append(("multi-gz", b"".join(gzip.compress(p, 1) for p in parts)))
        for name, blob in backings:
            for via in (("file", "pipe") if name not in ("file", "pipe") else (name,)):
                path = os.path.join(SCRATCH, "in.bin")
                with open(path, "wb") as f:
                    f.write(blob)
                if via == "file":
                    with open(path, "rb") as f:
                        try:
                            p = subprocess.run([exe, "1000000000"], stdin=f, stdout=subprocess.PIPE, stderr=subprocess.PIPE, timeout=25)
                            st, out = p.returncode, p.stdout
                        except subprocess.TimeoutExpired:
                            st, out = "timeout", b""
                else:
                    st, out, _ = run_tool([exe, "1000000000"], stdin=blob, timeout=25)
                n += 1
                c.count(("tool", name, via, len(data)), nontrivial=len(data) > 0, bucket="tool/remove_long_lines/%s-via-%s" % (name, via))
                if st != 0 or out != want:
                    # first difference
                    k = next((i for i in range(min(len(out), len(want))) if out[i] != want[i]), min(len(out), len(want)))
                    c.violation("tool-records: remove_long_lines 1000000000 on %d input bytes (%s via %s): status %s, output differs from the input's records at byte %d (got %d bytes, want %d)" % (
                        len(data), name, via, st, k, len(out), len(want)),
                        {"tool": "remove_long_lines 1000000000", "backing": name, "via": via, "stdin_hex": blob.hex() if len(blob) <= 4096 else None,
                         "stdin_len": len(blob), "plain_hex": data.hex() if len(data) <= 4096 else None, "first_diff": k, "status": st})
    c.cov["traces_validated_against_impl"] += 0
    return n


def main(argv):
    c = Check("C02", argv)
    os.makedirs(SCRATCH, exist_ok=True)
    os.environ["HX_TMPDIR"] = SCRATCH
    try:
        ok, blog = build_repo(["hx_filepiece", "remove_long_lines", "vfio"])
        if not ok:
            c.broken.append("build of the repo working tree failed: " + blog[-800:])
            return c.finish(rule="build failed")
        c.proofs()
        # only the translator this property's theories depend on (Gen/Src_filepiece.v) is part of its tie
        c.broken = [b for b in c.broken if not (b.startswith("translator(") and not b.startswith("translator(filepiece)"))]
        if c.tier == "thorough":
            coqchk(c)
        drv, dlog = build_driver("C02")
        impl = hx_bin("hx_filepiece")
        by_page = gen_cases(c)
        allcases = [x for p in by_page for x in by_page[p]]
        for i in (0, len(allcases) // 3, len(allcases) // 2, len(allcases) - 1):
            c.sample({"case": allcases[i][0][:300]})

        for page in sorted(by_page):
            lines = [l for l, _ in by_page[page]]
            metas = [m for _, m in by_page[page]]
            if page == os.sysconf("SC_PAGE_SIZE"):
                os.environ.pop("HX_PAGESIZE", None)
            else:
                os.environ["HX_PAGESIZE"] = str(page)
            # --- run the implementation harness and the extracted model on the same cases, in parallel chunks
            from concurrent.futures import ThreadPoolExecutor
            CH = 40000
            chunks = [lines[i:i + CH] for i in range(0, len(lines), CH)]
            with ThreadPoolExecutor(max_workers=6) as ex:
                f_impl = [ex.submit(run_lines_resilient, impl, ch, 40, None, 2) for ch in chunks]
                f_model = [ex.submit(run_lines, drv, ch, 900) for ch in chunks] if drv else []
                out, deaths = [], []
                for k, f in enumerate(f_impl):
                    o, d = f.result()
                    out += o
                    deaths += [(k * CH + idx, rc, err) for idx, rc, err in d]
                mout = []
                for f, ch in zip(f_model, chunks):
                    rc, o, err = f.result()
                    if len(o) != len(ch):
                        c.broken.append("model driver produced %d lines for %d cases (rc %s) %s" % (len(o), len(ch), rc, err[-200:]))
                        o = (o + [None] * len(ch))[:len(ch)]
                    mout += o
            for idx, rc, err in deaths:
                c.violation("harness-died: util::FilePiece crashed or hung (rc %s) on case %r: %s" % (rc, lines[idx][:200], err[-200:]),
                            {"case": lines[idx], "page": page, "rc": rc, "how": "HX_PAGESIZE=%d hx_filepiece <<< '%s'" % (page, lines[idx])})
            # --- correspondence: extracted model vs util::FilePiece (records, read() trace, mmap trace, EOF)
            if drv is None:
                if not any("extraction" in b for b in c.broken):
                    c.broken.append("extraction/driver build failed: " + dlog[-600:])
            else:
                dis = [(l, a, b) for l, a, b in zip(lines, mout, out) if a is not None and b is not None and a != b]
                c.cov["traces_validated_against_impl"] += len(lines)
                if dis:
                    l, a, b = min(dis, key=lambda d: len(d[0]))
                    c.broken.append("correspondence FilePiece model vs util/file_piece.cc (page %d): %d disagreement(s); smallest: case %r model=%r impl=%r" % (
                        page, len(dis), l[:200], a[:200], b[:200]))
            # --- direct oracle on the implementation's output: Python split
            for line, (kind, src, delim, cr), o in zip(lines, metas, out):
                if o is None:
                    continue
                want = py_records(src, delim, cr)
                got = parse_out(o)
                if got is None:
                    c.violation("reader-failed: %s on case %r" % (o[:80], line[:200]), {"case": line, "page": page, "impl": o[:300]})
                    continue
                recs, trace, maps, eof = got
                # which branches of the proofs' case splits did this case exercise (from the observed syscalls)
                D = c.cov["distribution"]

                def hit(b):
                    D["branch/" + b] = D.get("branch/" + b, 0) + 1
                t = line.split()
                pg, mb = int(t[1]), int(t[2])
                cap0 = pg * max(mb // pg + 1, 2)
                if kind in ("R", "I") or (kind == "M" and trace):
                    reqs = [q for q, _ in trace[1:]] if kind != "I" else []
                    if any(q > cap0 for q in reqs):
                        hit("ReadShift/grow")
                    if any(r == -1 for _, r in trace):
                        hit("PartialRead/EINTR-retry")
                    if any(0 < r < q for q, r in trace):
                        hit("read/short")
                    if trace and trace[0][1] < 6:
                        hit("ReadFactory/header-short-or-EOF")
                    if any(len(r) > cap0 for r in recs):
                        hit("ReadLine/record-longer-than-window")
                if kind == "M":
                    ms = [tuple(int(v) for v in p.split(":")) for p in maps.split(",")] if maps else []
                    if trace and len(t) == 10:
                        hit("MMapShift/failing-mmap-falls-back-to-read")
                    elif trace:
                        hit("MMapShift/empty-mapping-falls-back-to-read")
                    if any(sz > cap0 for _, sz in ms):
                        hit("MMapShift/window-doubled")
                    if len(set(o for o, _ in ms)) > 1:
                        hit("MMapShift/window-moved")
                    if ms and int(t[7]) % pg:
                        hit("MMapShift/unaligned-start-offset")
                    if len(ms) == 1:
                        hit("MMapShift/single-window")
                if any(r.endswith(b"\r") for r in want) or (cr and any(p.endswith(b"\r") for p in src.split(bytes([delim]))[:-1])):
                    hit("ReadLine/CR-stripped-or-kept")
                if src and not src.endswith(bytes([delim])):
                    hit("ReadLine/unterminated-tail")
                if b"" in want:
                    hit("ReadLine/empty-record")
                if recs != want:
                    c.violation("records-differ: FilePiece returned %d records, the input has %d; input %r delim %d strip_cr %s: got %r want %r" % (
                        len(recs), len(want), src[:60], delim, cr, recs[:8], want[:8]),
                        {"case": line, "page": page, "input_hex": src.hex(), "got": [r.hex() for r in recs], "want": [r.hex() for r in want],
                         "how": "HX_PAGESIZE=%d hx_filepiece <<< '%s'" % (page, line)})
                elif eof != "TT":
                    c.violation("eof-not-sticky: after the last record further calls returned %s (L = a line)" % eof,
                                {"case": line, "page": page, "input_hex": src.hex()})
                elif kind == "R" and sum(r for _, r in trace if r > 0) != len(src):
                    c.violation("bytes-not-consumed-once: read() returned %d bytes in total, input has %d" % (sum(r for _, r in trace if r > 0), len(src)),
                                {"case": line, "page": page, "trace": trace})
                elif kind == "R" and any(req == 0 for req, _ in trace):
                    c.violation("zero-size-read: read() asked for 0 bytes (would be taken for EOF)", {"case": line, "page": page, "trace": trace})
        os.environ.pop("HX_PAGESIZE", None)
        compressed_level(c, impl, os.path.join(build_dir(), "hx", "libvfio.so"))
        tool_level(c, False)
    finally:
        shutil.rmtree(SCRATCH, ignore_errors=True)
    return c.finish(level="proof",
                    rule="read() path: every input over {a,LF,CR} of length <= 8 under every fragmentation with a 2-byte window (page size 1 via the harness's sysconf), the same inputs with other windows/APIs/delimiters/no CR stripping/istream, random records around 1x/2x/4x the window with CR and delimiter on window edges under random Full/Short/EINTR scripts; mmap path: emulated mmap with page sizes 1-8 at every kind of start offset and total size around window multiples, real mmap with the real page size at sizes around page multiples; compressed backings with crafted geometry (gz/bz2/xz member boundaries on and +-1 around every input-buffer refill boundary 6+kInputBuffer*j, first pipe fragment of 1-5 bytes, random short reads across member headers, gz/bz2/xz/plain streams starting at aligned and unaligned offsets of a regular file) through the harness and through remove_long_lines; tool level: remove_long_lines 1000000000 over file/pipe/gz/bz2/xz/multi-member. distinct = distinct non-empty cases",
                    assumptions=["the OS is an oracle: each read() returns between 1 and the requested number of the next source bytes, or EINTR, and 0 only at end of input (and then for ever)",
                                 "mmap(offset, size>0) of a regular file shows exactly bytes [offset, offset+size) of the file; mmap of size 0 fails; the file does not change while it is read",
                                 "inputs starting with a gzip/bzip2/xz magic number are outside the model (ECompressed); decompressors are property C15",
                                 "memory contents of the buffer are modelled as lists; realloc/memmove preserve the bytes they are asked to preserve"])


if __name__ == "__main__":
    sys.exit(main(sys.argv[1:]))
