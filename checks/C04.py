"""C04 -- cache is transparent: one answer per input line, in order, the answer of the first line
with the same key; the child receives exactly the first-occurrence lines; exit status = child's.

Proof side: Wrap/CacheDefs.v (Input()/Output() at record level) proved equal to the specification for
all inputs and key assignments, plus the wrapper transition system of C05 at cache's parameters for
the hand-off under all interleavings.  Tie: the real bin/cache is run with logging scripted children
on inputs with every duplicate pattern, key specs (-k/-t), sizes beyond the pipe capacity and the
4096-line flush interval; stdout, the child's stdin log and the per-record need/lines of the trace
must equal what the extracted model computes; a Python oracle checks the property directly."""
import os
import sys
import tempfile
from concurrent.futures import ThreadPoolExecutor

sys.path.insert(0, os.path.join(os.path.dirname(os.path.abspath(__file__)), "..", "tools"))
from checklib import *  # noqa

CHILD = os.path.join(VERIF, "harness", "children", "child.py")
SCRATCH = os.path.join(os.path.dirname(BUILD_ROOT.rstrip("/")), "scratch-c04") if BUILD_ROOT.startswith("/var/tmp/") else "/var/tmp/verif-scratch-c04"


def answer(line, mode, n=0):
    if "+pre=" in mode:           # every answer starts with the given bytes (hex)
        mode, hx = mode.split("+pre=")
        return bytes.fromhex(hx) + answer(line, mode, n)
    if mode.endswith("+num"):     # stateful child: n = number of lines the child has answered before
        return b"%d:<" % n + line.upper() + b">"
    if mode == "echo":
        return line
    if mode.endswith("+f3"):
        f = line.split(b"\t")
        return f[2] if len(f) > 2 else b""
    return b"<" + line.upper() + b">" + (b"\r" if mode.endswith("+cr") else b"")


def key_of(line, kspec, sep):
    """cut-semantics key for the specs used here (lines always contain the selected fields and
    something after them, so the field-key corner cases owned by C10 are not touched)"""
    if kspec is None:
        return line
    fields = line.split(sep)
    sel = []
    for part in kspec.split(","):
        if "-" in part:
            a, b = part.split("-")
            a = int(a) if a else 1
            b = int(b) if b else len(fields)
            sel += fields[a - 1:b]
        else:
            sel += fields[int(part) - 1:int(part)]
    return sep.join(sel) if False else tuple(sel)


def gen_cases(c):
    rng = c.rng
    q = c.tier == "quick"
    cases = []
    alpha = [b"a", b"b", b"c", b"dd", b"", b"hello world", b"x" * 40]
    # every duplicate pattern of length <= 4 over 3 symbols (whole-line keys)
    import itertools
    for n in range(0, 5):
        for pat in itertools.product(range(3), repeat=n):
            if not q or rng.random() < 0.35:
                cases.append((None, None, [alpha[i] for i in pat]))
    # random duplicate patterns, empty lines, long lines
    for _ in range(30 if q else 300):
        n = rng.randrange(1, 60)
        univ = rng.randrange(1, 8)
        cases.append((None, None, [rng.choice(alpha[:univ]) + (b"!" * rng.randrange(0, 3)) for _ in range(n)]))
    # field keys: -k / -t ; every line has 4 fields and the key never reaches the last field
    for kspec, sep in (("1", b"\t"), ("2", b"\t"), ("1,3", b"\t"), ("2-3", b"\t"), ("2", b","), ("1-2", b",")):
        for _ in range(6 if q else 40):
            n = rng.randrange(1, 40)
            lines = [sep.join(rng.choice([b"p", b"q", b"r", b"", b"long" * 5]) for _ in range(3)) + sep + b"tail%d" % rng.randrange(1000) for _ in range(n)]
            cases.append((kspec, sep, lines))
    # ragged lines: fewer / exactly / more fields than the end of the key range (no empty fields, no
    # trailing separator: those corner cases are C10's); the cut key is the tuple of the selected fields present
    for kspec, sep in (("1-3", b","), ("2-3", b","), ("1-3", b"\t"), ("2-", b","), ("1,3", b",")):
        cases.append((kspec, sep, [sep.join(x) for x in ([b"a", b"x"], [b"b", b"x"], [b"d", b"y", b"2"], [b"d", b"y", b"2", b"zzz"],
                                                          [b"d", b"y"], [b"d", b"y", b"2"], [b"q"], [b"q", b"r"], [b"q"], [b"a", b"x"])]))
        for _ in range(4 if q else 30):
            n = rng.randrange(2, 40)
            cases.append((kspec, sep, [sep.join(rng.choice([b"p", b"q", b"r", b"ss"]) for _ in range(rng.randrange(1, 6))) for _ in range(n)]))
    # keys of EVERY length class modulo 8 (the hash's 8-byte blocks and its 1..7-byte tail) that differ only in
    # their last two bytes, swapped (equal XOR, equal sum): whole-line keys and -k keys; distinct keys, both must
    # reach the child and get their own answer
    for base in (0, 8, 16):
        lines = []
        for r in range(8):
            n = base + r
            if n < 2:
                continue
            stem = (b"item-customer-id-abcdefgh" * 2)[:n - 2]
            lines += [stem + b"12", stem + b"21", stem + b"12", stem + b"30", stem + b"03", stem + b"21"]
        cases.append((None, None, lines))
        cases.append(("2", b"\t", [b"f%d\t" % (i % 3) + l + b"\ttail" for i, l in enumerate(lines)]))
        cases.append(("1,3", b",", [l[:len(l) // 2] + b",mid%d," % (i % 2) + l[len(l) // 2:] + b",tail" for i, l in enumerate(lines)]))
    # key specs written as ADJACENT pieces whose later piece is a multi-field or open-ended range (they select the
    # same fields as 2-4 / 1- / ...): lines that differ only in a field of the later piece beyond its first
    for kspec in ("2,3-4", "3-4,2", "1-2,3-", "3-,1-2", "1,2-3", "2-3,4-5", "1,2,3-"):
        for sep in (b"\t", b","):
            rows = [[b"a", b"b", b"c", b"d1", b"e1", b"f"], [b"a", b"b", b"c", b"d2", b"e1", b"f"], [b"a", b"b", b"c", b"d1", b"e2", b"f"],
                    [b"a", b"b", b"c2", b"d1", b"e1", b"f"], [b"z", b"b", b"c", b"d1", b"e1", b"f"], [b"a", b"b", b"c", b"d1", b"e1", b"g"],
                    [b"a", b"b", b"c", b"d2", b"e1", b"f"], [b"a", b"b", b"c", b"d1", b"e1", b"f"], [b"a", b"b", b"c", b"d1", b"e2", b"f"]]
            cases.append((kspec, sep, [sep.join(x) for x in rows]))
            for _ in range(2 if q else 12):
                cases.append((kspec, sep, [sep.join(rng.choice([b"p", b"q"]) for _ in range(6)) for _ in range(rng.randrange(4, 40))]))
    # beyond the flush interval (4096 sends), beyond pipe capacity, very long lines
    cases.append((None, None, [b"u%d" % i for i in range(9000)]))
    cases.append((None, None, [b"v%d" % (i % 700) for i in range(12000)]))
    cases.append((None, None, [b"w" * 70000, b"w" * 70000, b"s", b"w" * 200000, b"s"]))
    cases.append(("1", b"\t", [b"k%d\tpayload %d" % (i % 5000, i) + b"z" * (i % 50) for i in range(15000)]))
    return cases


def run_cache(exe, args, data, child_args, timeout, stages=None):
    os.makedirs(SCRATCH, exist_ok=True)
    tf = tempfile.NamedTemporaryFile(dir=SCRATCH, prefix="trace-", delete=False)
    lf = tempfile.NamedTemporaryFile(dir=SCRATCH, prefix="log-", delete=False)
    lf.close()
    env = dict(os.environ)
    env["PREPROCESS_VERIF_TRACE_FD"] = str(tf.fileno())
    try:
        p = subprocess.Popen([exe] + args + [CHILD] + child_args + ["--log", lf.name], stdin=subprocess.PIPE, stdout=subprocess.PIPE,
                             stderr=subprocess.PIPE, env=env, pass_fds=(tf.fileno(),), start_new_session=True)
        try:
            if stages:
                import threading
                import time

                def feed():
                    try:
                        for k, chunk in enumerate(stages):
                            if k:
                                time.sleep(0.6)
                            p.stdin.write(chunk)
                            p.stdin.flush()
                        p.stdin.close()
                    except Exception:
                        pass
                th = threading.Thread(target=feed)
                th.start()
                import signal as _sig
                killed = []

                def _kill():
                    killed.append(1)
                    try:
                        os.killpg(p.pid, _sig.SIGKILL)
                    except Exception:
                        p.kill()
                wd = threading.Timer(timeout, _kill)
                wd.start()
                out = p.stdout.read()
                err = p.stderr.read()
                p.wait()
                wd.cancel()
                th.join()
                if killed:
                    raise subprocess.TimeoutExpired(exe, timeout)
            else:
                out, err = p.communicate(data, timeout=timeout)
            status = p.returncode
        except subprocess.TimeoutExpired:
            import signal
            try:
                os.killpg(p.pid, signal.SIGKILL)
            except Exception:
                p.kill()
            if p.stdin is not None and p.stdin.closed:
                p.stdin = None        # communicate() already closed it (empty input): do not flush it again
            try:
                out, err = p.communicate(timeout=10)
            except Exception:
                out, err = b"", b""
            status = "timeout"
        with open(tf.name, "rb") as f:
            trace = f.read().decode("ascii", "replace")
        with open(lf.name, "rb") as f:
            log_data = f.read()
    finally:
        tf.close()
        os.unlink(tf.name)
        os.unlink(lf.name)
    return status, out, log_data, trace, err


def main(argv):
    c = Check("C04", argv)
    ok, blog = build_repo(["cache"])
    if not ok:
        c.broken.append("build of repo working tree failed: " + blog[-800:])
        return c.finish(rule="build failed")
    c.proofs(extra_trusted=["harness/children/child.py (logging scripted children); Python cut-semantics key for the -k/-t cases",
                            "64-bit key hashes assumed collision free on the generated inputs"])
    drv, dlog = build_driver("C04")
    if drv is None:
        c.broken.append("extraction/driver build failed: " + dlog[-600:])
    cases = gen_cases(c)
    modes = ["eager", "block:7", "readall", "echo", "stdio", "block:5000"]
    jobs = []
    for i, (kspec, sep, lines) in enumerate(cases):
        mode = modes[i % len(modes)]
        code = c.rng.choice((0, 0, 0, 3, 255)) if i % 5 == 0 else 0
        args = []
        if kspec:
            args += ["-k", kspec]
            if sep != b"\t":
                args += ["-t", sep.decode()]
        jobs.append((args, kspec, sep, lines, mode, code))
    # carriage returns in front of the newline, in the input and in the child's answers (finding F11, fixed)
    jobs.append(([], None, None, [b"a\r", b"b"], "echo", 0))
    jobs.append(([], None, None, [b"a\r", b"a"], "eager", 0))
    jobs.append(([], None, None, [b"a\r", b"a", b"\r", b"", b"a\r"], "block:7+cr", 0))
    jobs.append(([], None, None, [b"x", b"y\r\r", b"x"], "eager+cr", 0))
    for _ in range(6):
        jobs.append(([], None, None, [c.rng.choice([b"p", b"p\r", b"\r", b"q\rq", b""]) for _ in range(c.rng.randrange(1, 30))],
                     c.rng.choice(["echo", "eager+cr", "readall+cr", "stdio"]), 0))

    # the answer to the first distinct key(s) is the EMPTY line and the key recurs (the cached empty answer must be
    # distinguishable from "not answered yet"): empty input lines with the byte-copying child, and -k 1 with a
    # child that prints field 3 of lines whose field 3 is empty
    for mode in ("echo", "eager+f3", "block:7+f3", "readall+f3"):
        jobs.append(([], None, None, [b"", b"", b"a", b"", b"b", b""], mode, 0))
        jobs.append(([], None, None, [b"", b"x", b"", b"x", b""], mode, 0))
    for mode in ("eager+f3", "stdio+f3", "readall+f3"):
        jobs.append((["-k", "1"], "1", b"\t", [b"k1\tu\t\tw", b"k1\tv\t\tw", b"k2\tu\tC\tw", b"k1\tz\tD\tw", b"k3\tu\t\tw", b"k2\tq\t\tw", b"k3\tu\tE\tw"], mode, 0))
        jobs.append((["-k", "1"], "1", b"\t", [b"e\t1\t\tz"] * 4 + [b"f\t1\tF\tz", b"e\t2\tG\tz"], mode, 0))
    # more repeats of ONE key than any plausible bound of the hand-off queue (65536) while its first-occurrence line
    # may still sit in the unflushed 8 KiB stream buffer; and 5000 new lines followed by 100000 repeats
    jobs.append(([], None, None, [b"same line"] * 70001, "eager", 0))
    jobs.append(([], None, None, [b"n%d" % i for i in range(5000)] + [b"n%d" % (i % 7) for i in range(100000)], "stdio", 0))
    # input NOT ending in a newline whose last line is a first occurrence / a repeat: the child must still get every
    # forwarded line newline-terminated (and nothing else), cache's output ends in a newline
    unterminated = set()
    for lines, mode in (([b"alpha", b"beta", b"alpha", b"gamma"], "eager"), ([b"alpha", b"beta", b"alpha"], "eager"), ([b"only"], "readall"),
                        ([b"alpha", b"beta", b"gamma" * 3000], "echo"), ([b"k\tv1", b"k\tv2", b"j\tv3"], "eager")):
        unterminated.add(len(jobs))
        jobs.append((["-k", "1"] if b"\t" in lines[0] else [], "1" if b"\t" in lines[0] else None, b"\t" if b"\t" in lines[0] else None, lines, mode, 0))
    # OPEN known finding: every stream cache reads through FilePiece (its stdin, the child's stdout) is taken for a
    # compressed stream if it STARTS with a gzip / bzip2 / xz magic: the tool aborts (or decodes) instead of passing
    # the text through.  Input whose first line starts with each magic; child whose first answer starts with it.
    magic_jobs = set()
    for mg in (b"\x1f\x8b", b"BZh", b"\xfd7zXZ\x00"):
        magic_jobs.add(len(jobs))
        jobs.append(([], None, None, [mg + b"ello world", b"second"], "echo", 0))
        magic_jobs.add(len(jobs))
        jobs.append(([], None, None, [b"hello", b"world", b"hello"], "eager+pre=" + mg.hex(), 0))
    # two (three) LONG lines in a row: the second is still incomplete when the reader's 1 MiB buffer is full and
    # starts neither at offset 0 nor in the second half of it (grow-vs-shift decision of the pipe reader, on the
    # input side and on the child's answers)
    for lens in ((300000, 900000), (100000, 1000000), (500000, 600000, 700000), (10, 520000, 1048000), (600000, 900000)):
        for mode in ("echo", "eager"):
            jobs.append(([], None, None, [bytes([97 + k]) * n for k, n in enumerate(lens)], mode, 0))
    # a STATEFUL child (numbers its answers): the line for input i is the answer line the child WROTE for the first
    # line with the same key (C04_any_child_answer_of_first_line_with_same_key)
    for mode in ("eager+num", "block:7+num", "readall+num", "stdio+num"):
        jobs.append(([], None, None, [b"a", b"a", b"b", b"a", b"c", b"b", b"", b""], mode, 0))
        jobs.append(([], None, None, [c.rng.choice([b"u", b"v", b"w", b"", b"xy"]) for _ in range(c.rng.randrange(1, 60))], mode, 0))
    jobs.append((["-k", "1"], "1", b"\t", [b"k1\tu\tw", b"k1\tv\tw", b"k2\tu\tw", b"k1\tz\tw", b"k3\tu\tw", b"k2\tq\tw"], "eager+num", 0))
    # whole-line keys whose 64-bit hashes (MurmurHash64A, seed 0, as cache folds a single piece) agree only in the
    # low or only in the high 32 bits: both lines of a pair are distinct keys and must reach the child
    pairs = [(b"7085", b"153120"), (b"26949", b"148467"), (b"99261", b"123352")]
    try:
        found = murmur_partial_collisions(count=160000 if c.tier == "quick" else 600000, seed=0, prefix=b"", want=3)
        pairs += found["low32"] + found["high32"]
    except Exception as e:
        c.broken.append("murmur_partial_collisions failed: %s" % e)
    good = [(a, b) for a, b in pairs if murmur64a_py(a, 0) != murmur64a_py(b, 0)]
    c.cov["distribution"]["partial-hash-collision pairs"] = len(good)
    for a, b in good:
        jobs.append(([], None, None, [a, b, a, b], "eager", 0))
    jobs.append(([], None, None, [x for ab in good for x in ab], "readall", 0))
    # one first-occurrence line longer than both pipes with the byte-copying child (the enqueue-after-write deadlock)
    jobs.append(([], None, None, [b"a", b"L" * 300000, b"a"], "echo", 0))
    # collector catching up with the feeder exactly at a multiple of the queue's 1023-entry page while more
    # input is still to come: > 4096 distinct lines (periodic flush), duplicates up to k*1023 lines, a stall, the rest
    staged = {}
    for k in (5, 6):
        first = [b"s%d" % i for i in range(4096)] + [b"s%d" % (i % 50) for i in range(k * 1023 - 4096)]
        rest = [b"t%d" % (i % 30) for i in range(200)]
        staged[len(jobs)] = len(first)
        jobs.append(([], None, None, first + rest, "eager", 0))

    def do(ij):
        i, job = ij
        args, kspec, sep, lines, mode, code = job
        data = b"".join(l + b"\n" for l in lines)
        if i in unterminated:
            data = data[:-1]
        stages = None
        if i in staged:
            cut = staged[i]
            stages = [b"".join(l + b"\n" for l in lines[:cut]), b"".join(l + b"\n" for l in lines[cut:])]
        try:
            return run_cache(repo_bin("cache"), args, data, [mode, "--exit", str(code)], 20 if c.tier == "quick" else 120, stages=stages)
        except subprocess.TimeoutExpired:
            return "timeout", b"", b"", "", b""

    with ThreadPoolExecutor(max_workers=6) as ex:
        results = list(ex.map(do, list(enumerate(jobs))))
    mlines, mjobs = [], []
    for ji, (job, (status, out, log_data, trace, err)) in enumerate(zip(jobs, results)):
        args, kspec, sep, lines, mode, code = job
        data = b"".join(l + b"\n" for l in lines)
        if ji in unterminated:
            data = data[:-1]
        keys = [key_of(l, kspec, sep) for l in lines]
        ndistinct = len(set(keys))
        has_cr = any(l.endswith(b"\r") for l in lines)
        c.count((tuple(args), tuple(lines[:50]), len(lines), mode), nontrivial=len(lines) > 0,
                bucket="key=%s/dups=%s/%s" % (kspec or "line", "none" if ndistinct == len(keys) else ("all" if ndistinct <= 1 else "some"), mode))
        desc = {"args": args, "child": "harness/children/child.py %s --exit %d" % (mode, code), "lines": len(lines),
                "input_head_hex": hexs(data[:300]), "input_tail_hex": hexs(data[-20:]), "input_has_cr_before_newline": "yes" if has_cr else "no",
                "stream_starts_with_compression_magic": "yes" if ji in magic_jobs else "no",
                "how": "printf <input> | cache %s harness/children/child.py %s" % (" ".join(args), mode)}
        if status == "timeout":
            c.violation("hang: cache did not terminate (child %s, %d lines)" % (mode, len(lines)), desc)
            continue
        # ---- direct oracle (Python): answer of the first line with the same key; child's stdin = first occurrences
        first = {}
        exp_out, exp_log = [], []
        for l, k in zip(lines, keys):
            if k not in first:
                first[k] = answer(l, mode, len(exp_log))
                exp_log.append(l)
            exp_out.append(first[k])
        exp_out_b = b"".join(o + b"\n" for o in exp_out)
        exp_log_b = b"".join(o + b"\n" for o in exp_log)
        if out != exp_out_b:
            c.violation("transparency: cache output differs from the answers of the first line with the same key (%d lines, key %s, child %s): got %r..., expected %r..." % (
                len(lines), kspec or "whole line", mode, out[:60], exp_out_b[:60]), desc)
        elif kspec is None and not mode.endswith("+num") and ji not in unterminated and out != b"".join(answer(l, mode) + b"\n" for l in lines):
            c.violation("transparency: output differs from running the child directly", desc)
        if log_data != exp_log_b:
            c.violation("child-input: the child did not receive exactly the first-occurrence lines once in order (%d lines, key %s): got %r..., expected %r..." % (
                len(lines), kspec or "whole line", log_data[:60], exp_log_b[:60]), desc)
        if status != code:
            c.violation("status: cache exited with %s, child exited with %d" % (status, code), desc)
        # ---- model: same key ids, same lines
        if ji in magic_jobs:
            continue     # the model's `records` is about plain streams (see the open finding)
        if drv is not None and len(lines) <= 3000 and max([len(l) for l in lines] or [0]) <= 400000:   # (list-of-bytes model: longer lines overflow the driver's stack)
            ids = {}
            items = []
            for l, k in zip(lines, keys):
                ids.setdefault(k, len(ids))
                items.append("%d:%s" % (ids[k], hexs(l)))
            mlines.append("R %s %s" % ("e" if mode == "echo" else "n" if mode.endswith("+num") else ("c" if mode.endswith("+cr") else ("f" if mode.endswith("+f3") else "u")), " ".join(items)))
            mjobs.append((job, out, log_data, trace))
    if drv is not None and mlines:
        rc, mout, merr = run_lines(drv, mlines, timeout=600)
        if len(mout) != len(mlines):
            c.broken.append("C04_driver died: rc=%s %s" % (rc, merr[-300:]))
        else:
            ndis = 0
            for (job, out, log_data, trace), o in zip(mjobs, mout):
                m = re.match(r"sent=(\S*) out=(\S*) need=(\S*)$", o)
                if not m:
                    c.broken.append("C04_driver output unparsable: " + o[:200])
                    continue
                msent = b"".join(bytes.fromhex(h) + b"\n" for h in m.group(1).split(",")) if m.group(1) or job[3] else b""
                if m.group(1) == "" and any(True for _ in job[3]):
                    # a single empty line sent shows as empty string too: recompute from need bits
                    msent = b"".join(l + b"\n" for l, bit in zip(job[3], m.group(3)) if bit == "1")
                mo = b"".join(bytes.fromhex(h) + b"\n" for h in m.group(2).split(",")) if job[3] else b""
                tneed = "".join(ev.split()[2] for ev in trace.split("\n") if ev.startswith("C need"))
                tlines = "".join(ev.split()[2] for ev in trace.split("\n") if ev.startswith("F lines"))
                bad = []
                if mo != out:
                    bad.append("stdout")
                if msent != log_data:
                    bad.append("child stdin")
                if tneed != m.group(3) or tlines != m.group(3):
                    bad.append("per-record need/lines of the trace (need=%s lines=%s model=%s)" % (tneed[:40], tlines[:40], m.group(3)[:40]))
                if bad:
                    ndis += 1
                    if ndis <= 3:
                        c.broken.append("correspondence cache model vs bin/cache: %s differ for %d lines key %s child %s" % (", ".join(bad), len(job[3]), job[1], job[4]))
                else:
                    c.cov["traces_validated_against_impl"] += 1
    c.sample({"args": jobs[40][0], "lines": [l.decode("latin1") for l in jobs[40][3][:8]], "child": jobs[40][4]})
    try:
        os.rmdir(SCRATCH)
    except OSError:
        pass
    return c.finish(level="proof",
                    rule="bin/cache with logging scripted children (eager, blocks, read-all-first, byte-copying, stdio) on all duplicate patterns up to length 4 over 3 lines, random duplicate patterns incl. empty lines, field keys (-k 1 / 2 / 1,3 / 2-3, -t ,), 9000-15000 lines (beyond the 4096-send flush interval), lines of 70k/200k bytes; stdout, child stdin log, exit status and per-record need/lines compared with the extracted model and with a Python oracle",
                    assumptions=["the child answers one line per line, deterministically, as a function of the line",
                                 "no 64-bit hash collision among the generated keys",
                                 "field-key cases use lines that contain every selected field followed by further fields (key corner cases are C10's)"])


if __name__ == "__main__":
    sys.exit(main(sys.argv[1:]))
