"""C15 -- compressed I/O is transparent and interoperable (util/compress.cc).

build -> regenerate Gen/Src_compress.v -> Coq theorems -> extracted driver model
replayed against the codec-call log of the real run (same call sequence) ->
direct oracles on the implementation's output (Python zlib/bz2/lzma and the
gzip/bzip2 command line tools as independent codecs) -> the logged codec
behaviour is checked against the contract hypotheses of the theorems."""
import bz2
import gzip
import lzma
import os
import shutil
import subprocess
import sys
import zlib

sys.path.insert(0, os.path.join(os.path.dirname(os.path.abspath(__file__)), "..", "tools"))
from checklib import *  # noqa
import codeclog

MAGIC = {"gz": b"\x1f\x8b", "bz": b"BZh", "xz": b"\xfd7zXZ\x00"}
Z_OK, Z_STREAM_END, Z_BUF_ERROR = 0, 1, -5
BZ_OK, BZ_RUN_OK, BZ_FINISH_OK, BZ_STREAM_END = 0, 1, 3, 4
LZMA_OK, LZMA_STREAM_END, LZMA_BUF_ERROR = 0, 1, 10
END = {"inflate": Z_STREAM_END, "bzDecompress": BZ_STREAM_END, "lzma_code": LZMA_STREAM_END,
       "deflate": Z_STREAM_END, "bzCompress": BZ_STREAM_END}


def enc(kind, data, level=None):
    if kind == "gz":
        co = zlib.compressobj(9 if level is None else level, zlib.DEFLATED, 31)
        return co.compress(data) + co.flush()
    if kind == "bz":
        return bz2.compress(data, 9 if level is None else level)
    return lzma.compress(data, format=lzma.FORMAT_XZ, preset=1)


def detect(b):
    for k in ("gz", "bz", "xz"):
        if b.startswith(MAGIC[k]):
            return k
    return None


def gz_member_of_length(rng, target):
    """a stored-block (level 0) gzip member of exactly `target` bytes"""
    for n in range(max(0, target - 40), target):
        m = enc("gz", bytes(rng.randrange(256) for _ in range(n)), 0)
        if len(m) == target:
            return m
    return None


def csv(xs):
    return ",".join(str(x) for x in xs) if xs else "-"


def hexd(b):
    return b.hex() if b else "-"


def rand_frags(rng, n, mean):
    out = []
    left = n
    while left > 0:
        k = min(left, max(1, int(rng.expovariate(1.0 / mean))))
        out.append(k)
        left -= k
    return out


def gen_payloads(c):
    rng = c.rng
    text = b"".join(b"line %d of some text, text, text\n" % (i % 37) for i in range(90))
    P = {
        "empty": b"", "one": b"a", "tiny": b"hello world hello\n",
        "text": text,
        "rand5k": bytes(rng.randrange(256) for _ in range(5000)),
        "rand40k": bytes(rng.randrange(256) for _ in range(40000)),
        "zeros70k": bytes(70000),
    }
    if c.tier == "thorough":
        P["rand200k"] = bytes(rng.randrange(256) for _ in range(200000))
        P["text1m"] = text * 340
    return P


def gen_read_cases(c, P):
    """-> list of dict(stream, frags, amounts, expect=('ok', payload)|('err',)|('any',), bucket, members=[(kind, member, payload)])"""
    rng = c.rng
    cases = []

    def add(stream, frags, amounts, expect, bucket, members=None):
        cases.append({"stream": stream, "frags": frags, "amounts": amounts, "expect": expect, "bucket": bucket,
                      "members": members})

    kinds = ("gz", "bz", "xz")
    amount_sets = [[4096], [1], [65536], [7, 1, 300, 2], [100000]]
    # --- single members, every payload x codec x a few fragmentations / request sizes
    for name, data in P.items():
        for k in kinds:
            m = enc(k, data)
            mem = [(k, m, data)]
            big = len(data) > 6000
            add(m, [], [4096], ("ok", data), "read/%s/single/whole" % k, mem)
            add(m, rand_frags(rng, len(m), 37 if len(m) < 50000 else 3000), [rng.choice((3, 50, 4096, 20000)) if len(data) < 50000 else rng.choice((4096, 20000))],
                ("ok", data), "read/%s/single/random-frags" % k, mem)
            if not big:
                add(m, [1] * len(m), [1], ("ok", data), "read/%s/single/1-byte-frags-1-byte-requests" % k, mem)
                add(m, rand_frags(rng, len(m), 5), rng.choice(amount_sets), ("ok", data), "read/%s/single/random-frags" % k, mem)
            else:
                add(m, [16384, 1, 16383], [65536], ("ok", data), "read/%s/single/buffer-boundary-frags" % k, mem)
    # --- every split point of small streams (two fragments)
    for k in kinds:
        m = enc(k, P["tiny"])
        for p in range(1, len(m)):
            add(m, [p, len(m) - p], [4096], ("ok", P["tiny"]), "read/%s/every-split-point" % k, [(k, m, P["tiny"])])
    # --- concatenated members, mixed codecs, empty members
    names = list(P.keys())
    for rep in range(14 if c.tier == "quick" else 80):
        n = rng.randrange(2, 5)
        mem = []
        for _ in range(n):
            nm = rng.choice(names if rep % 3 == 0 else ["empty", "one", "tiny", "text"])
            k = rng.choice(kinds)
            mem.append((k, enc(k, P[nm]), P[nm]))
        stream = b"".join(m for _, m, _ in mem)
        data = b"".join(d for _, _, d in mem)
        add(stream, rand_frags(rng, len(stream), rng.choice((3, 40, 5000)) if len(stream) < 50000 else 5000),
            rng.choice(amount_sets) if len(data) < 50000 else [65536], ("ok", data),
            "read/concat/%d-members" % n, mem)
        if len(stream) < 700:
            add(stream, [1] * len(stream), [rng.choice((1, 2, 4096)) if len(data) < 20000 else 4096], ("ok", data), "read/concat/1-byte-frags", mem)
    # --- member boundary around the 16384-byte input buffer: the next magic straddles the refill
    for target in (16384, 16383, 16385, 16379, 16380, 16381, 16382, 32768 - 3):
        m1 = gz_member_of_length(rng, target)
        if m1 is None:
            continue
        d1 = zlib.decompress(m1, 31)
        k2 = rng.choice(kinds)
        mem = [("gz", m1, d1), (k2, enc(k2, P["tiny"]), P["tiny"])]
        add(m1 + mem[1][1], [], [65536], ("ok", d1 + P["tiny"]), "read/concat/magic-straddles-input-buffer", mem)
        add(m1 + mem[1][1], rand_frags(rng, len(m1) + len(mem[1][1]), 3000), [4096], ("ok", d1 + P["tiny"]),
            "read/concat/magic-straddles-input-buffer", mem)
    # --- a NON-FINAL member that ends exactly on / around an input-buffer refill boundary.
    # ReadFactory consumes kMagicSize (6) bytes, then ReadStream refills 16384 bytes at a time:
    # the refills sit at absolute offsets 6 + 16384*j.  When a member ends there the input
    # buffer is empty at END and the next member must be found by probing the file again
    # (ReadFactory with already_size = 0).  For gz the member itself is sized; for bz2/xz a
    # sized gz member in front shifts the member so that its END falls on the boundary.
    tail_kinds = list(kinds)
    for j in (1, 2):
        for d in range(-6, 4):
            end = 6 + 16384 * j + d
            m1 = gz_member_of_length(rng, end)
            if m1 is not None:
                k2 = tail_kinds[(j + d) % 3]
                m2 = enc(k2, P["tiny"])
                mem = [("gz", m1, zlib.decompress(m1, 31)), (k2, m2, P["tiny"])]
                add(m1 + m2, [], [rng.choice((4096, 65536))], ("ok", mem[0][2] + P["tiny"]),
                    "read/concat/member-ends-at-refill-boundary%+d/gz" % d, mem)
            for kb in ("bz", "xz"):
                body = bytes(rng.randrange(256) for _ in range(rng.randrange(1500, 3500)))
                mb = enc(kb, body)
                ma = gz_member_of_length(rng, end - len(mb))
                if ma is None:
                    continue
                k3 = tail_kinds[(j + d + 1) % 3]
                mc = enc(k3, P["one"])
                da = zlib.decompress(ma, 31)
                mem = [("gz", ma, da), (kb, mb, body), (k3, mc, P["one"])]
                add(ma + mb + mc, [] if d % 2 else rand_frags(rng, len(ma) + len(mb) + len(mc), 5000), [rng.choice((4096, 65536))],
                    ("ok", da + body + P["one"]), "read/concat/member-ends-at-refill-boundary%+d/%s" % (d, kb), mem)
    # --- xz streams of every preset, extreme mode and large dictionaries (the decoder must not impose a memory limit)
    xz_variants = [("preset%d" % p_, {"preset": p_}) for p_ in range(0, 10)] + [("preset9e", {"preset": 9 | lzma.PRESET_EXTREME})]
    for dict_mb in (8, 64, 128, 256):
        xz_variants.append(("dict%dMiB" % dict_mb, {"filters": [{"id": lzma.FILTER_LZMA2, "preset": 0, "dict_size": dict_mb << 20}]}))
    for name, kw in xz_variants:
        if c.tier == "quick" and name in ("preset7", "preset8", "preset9e"):
            continue            # same 64 MiB dictionary as preset9 / dict64MiB; their encoders need most of a second each
        m = lzma.compress(P["text"], format=lzma.FORMAT_XZ, **kw)
        add(m, rand_frags(rng, len(m), 700), [4096], ("ok", P["text"]), "read/xz/encoder-%s" % name, [("xz", m, P["text"])])
    # --- a deflate stream cut exactly where the decoded bytes end cleanly (sync-flush point, stored-block
    #     boundary, only the trailer missing): nothing in the decoded data betrays the truncation
    for lvl in (0, 6):
        co = zlib.compressobj(lvl, zlib.DEFLATED, 31)
        part1 = co.compress(b"first line\nsecond line\n") + co.flush(zlib.Z_SYNC_FLUSH)
        part2 = co.compress(b"third line\n" * 50) + co.flush(zlib.Z_FULL_FLUSH)
        whole = part1 + part2 + co.compress(b"last\n") + co.flush()
        for cut in sorted(set([len(part1), len(part1) + len(part2)] + list(range(len(whole) - 8, len(whole))))):
            add(whole[:cut], rand_frags(rng, cut, 40), [4096], ("err",), "read/gz/cut-at-flush-point-or-trailer")
    # --- truncation at every byte of small streams; and of a second member
    for k in kinds:
        m = enc(k, P["tiny"])
        for cut in range(0, len(m)):
            t = m[:cut]
            if detect(t) is None:
                # too short to carry the magic: indistinguishable from plain data
                add(t, [], [4096], ("ok", t), "read/%s/truncated-before-magic=plain" % k)
            else:
                add(t, rand_frags(rng, len(t), 9), [rng.choice((1, 4096))], ("err",), "read/%s/truncated-every-byte" % k)
        first = enc(rng.choice(kinds), P["one"])
        for cut in range(1, len(m), 1 if c.tier == "thorough" else 3):
            add(first + m[:cut], [], [4096], ("err",), "read/%s/second-member-truncated" % k)
    for k in kinds:
        m = enc(k, P["rand40k"])
        for cut in (len(m) - 1, len(m) // 2, 16384, 16383, 16385, 32768, 6, 7):
            add(m[:cut], [], [rng.choice((4096, 65536))], ("err",), "read/%s/truncated-large" % k)
        m = enc(k, P["zeros70k"])
        for cut in (len(m) - 1, len(m) - 4, len(m) // 2):
            add(m[:cut], [], [rng.choice((4096, 100000))], ("err",), "read/%s/truncated-compressible" % k)
    # --- plain data (also through the magic-detection path: shorter than kMagicSize, exactly, longer)
    for n in list(range(0, 14)) + [100, 5000, 40000]:
        d = bytes(rng.randrange(256) for _ in range(n))
        while detect(d) is not None:
            d = bytes(rng.randrange(256) for _ in range(n))
        add(d, [], [4096], ("ok", d), "read/plain/whole")
        if n:
            add(d, rand_frags(rng, n, 4), rng.choice(amount_sets), ("ok", d), "read/plain/random-frags")
            if n <= 100:
                add(d, [1] * n, [rng.choice((1, 2, 3, 4096))], ("ok", d), "read/plain/1-byte-frags")
    # near-magic plain data: proper prefixes of the magics followed by something else
    for k in kinds:
        for j in range(1, len(MAGIC[k])):
            d = MAGIC[k][:j] + b"Q" + P["tiny"]
            if detect(d) is None:
                add(d, rand_frags(rng, len(d), 3), [4096], ("ok", d), "read/plain/near-magic")
    # --- no oracle, correspondence only: plain after compressed, look-alike magic, corrupted byte
    for k in kinds:
        m = enc(k, P["tiny"])
        add(m + b"plain tail", [], [4096], ("notok",), "read/%s/plain-after-compressed" % k)
        add(MAGIC[k] + P["tiny"], [], [4096], ("any",), "read/%s/magic-then-garbage" % k)
        for _ in range(6 if c.tier == "quick" else 60):
            i = rng.randrange(len(m))
            bad = m[:i] + bytes([m[i] ^ (1 << rng.randrange(8))]) + m[i + 1:]
            add(bad, [], [4096], ("any",), "read/%s/one-bit-flipped" % k)
    return cases


def emitted_by_deflate(d):
    co = zlib.compressobj(9, zlib.DEFLATED, 31, 8)       # the parameters of GZipWrite
    return len(co.compress(d))


def find_partial_drain_payloads(rng, want=3, size=60000, budget=1500):
    """Data after whose write() the gzip writer's 4096-byte output buffer has 1..5 free bytes:
    the next write()/flush() finds avail_out < kMinOutput (6) with a PARTIALLY filled buffer and
    must hand over exactly NextOutput()-buf_ bytes (the case split of ensure_output in the model).
    Seeded, bounded search: a low-entropy prefix of growing length moves the number of bytes
    deflate has emitted smoothly; coarse scan, then fine scan where the residue mod 4096 passes 4091..4095."""
    R = bytes(rng.randrange(256) for _ in range(size))
    hits = []
    trials = 0
    for alpha in (64, 2, 16):
        L = bytes(rng.randrange(alpha) + 65 for _ in range(size))
        coarse = []
        for z in range(0, 48001, 750):
            coarse.append((z, emitted_by_deflate(L[:z] + R[z:])))
            trials += 1
        for (z0, t0), (z1, t1) in zip(coarse, coarse[1:]):
            if abs(t1 - t0) > 3000 or t0 <= 10 or t1 <= 10:
                continue
            lo, hi = min(t0, t1), max(t0, t1)
            if not any(v % 4096 >= 4091 for v in range(lo, hi + 1)):
                continue
            for z in range(z0, z1, 3):
                t = emitted_by_deflate(L[:z] + R[z:])
                trials += 1
                if t % 4096 >= 4091:
                    hits.append((L[:z] + R[z:], 4096 - t % 4096))
                    break
                if trials > budget:
                    break
            if len(hits) >= want or trials > budget:
                return hits
    return hits


def partial_drain_events(events):
    """how often a deflate call left 1..5 free bytes and the next call started on a fresh buffer"""
    calls = [x for x in events if not isinstance(x, tuple) and x.rc is not None and x.fn == "deflate"]
    pairs = [(a, b) for a, b in zip(calls, calls[1:]) if 1 <= a.aout2 <= 5 and b.aout == 4096]
    # the drain happened in write() (next call is deflate(Z_NO_FLUSH)) or in flush() (Z_FINISH)
    return sum(1 for a, b in pairs if b.flag == 0), sum(1 for a, b in pairs if b.flag != 0)


def bz_full_at_flush_events(events):
    """BZ2_bzCompress(BZ_RUN) ended a write() with avail_in = 0 and avail_out = 0, and BZ_FINISH came next"""
    calls = [x for x in events if not isinstance(x, tuple) and x.rc is not None and x.fn == "bzCompress"]
    return sum(1 for a, b in zip(calls, calls[1:]) if a.flag == 0 and a.ain2 == 0 and a.aout2 == 0 and b.flag == 2)


def gen_write_cases(c, P):
    rng = c.rng
    seqs = [[], ["f"], ["f", "f"], ["w"], ["w", "f", "w"], ["w", "f", "w", "f"],
            ["w" + P["tiny"].hex()], ["w" + P["tiny"].hex(), "f"], ["f", "w" + P["tiny"].hex()],
            ["w" + P["tiny"].hex(), "f", "w" + P["one"].hex()], ["w" + P["one"].hex(), "f", "f", "w", "f"],
            ["w" + P["rand5k"].hex()], ["w" + P["rand40k"].hex()], ["w" + P["zeros70k"].hex()],
            ["w" + P["rand40k"][i:i + 4096].hex() for i in range(0, 40000, 4096)],
            ["w" + P["rand5k"][i:i + 1].hex() for i in range(0, 300)],
            ["w" + P["rand5k"].hex(), "f", "w" + P["rand5k"].hex(), "f"]]
    many = []
    for i in range(300):
        many.append("w" + P["text"][7 * i:7 * i + 7].hex())
        if i % 50 == 49:
            many.append("f")
    seqs.append(many)
    for _ in range(25 if c.tier == "quick" else 300):
        s = []
        for _ in range(rng.randrange(1, 9)):
            r = rng.random()
            if r < 0.3:
                s.append("f")
            else:
                src = P[rng.choice(["tiny", "text", "rand5k", "zeros70k", "rand40k"])]
                n = rng.choice((0, 1, 2, 5, 100, 4090, 4096, 4097, 9000))
                off = rng.randrange(0, max(1, len(src) - n))
                s.append("w" + src[off:off + n].hex())
        seqs.append(s)
    if c.tier == "thorough":
        seqs.append(["w" + P["rand200k"].hex(), "f", "w" + P["text1m"].hex()])
    cases = []
    for s in seqs:
        for comp in ("none", "gzip", "bzip2"):
            data = b"".join(bytes.fromhex(o[1:]) for o in s if o.startswith("w"))
            nflush = sum(1 for o in s if o == "f")
            cases.append({"comp": comp, "ops": s, "data": data,
                          "bucket": "write/%s/%s" % (comp, "no-data" if not data else ("flushes" if nflush else "no-flush"))})
    # aimed at the ensure_output case split: 1..5 free bytes at a write()/flush() boundary (gzip; for
    # bzip2 kMinOutput = 1, so a drained buffer is always completely full -- the same ops run there too)
    hits = find_partial_drain_payloads(rng, want=3 if c.tier == "quick" else 8)
    for d, free in hits:
        for tail in (["w78"], ["w78", "w79"], ["w78", "w" + P["tiny"].hex(), "f"], ["f"], ["w78", "w", "f", "w" + d[:5000].hex()],
                     ["w" + P["tiny"].hex(), "f", "f"]):
            ops = ["w" + d.hex()] + tail
            for comp in ("gzip", "bzip2"):
                data = b"".join(bytes.fromhex(o[1:]) for o in ops if o.startswith("w"))
                cases.append({"comp": comp, "ops": ops, "data": data, "bucket": "write/%s/partial-buffer-at-call-boundary(free=%d)" % (comp, free),
                              # (a flush directly after the big write does not see the partial buffer: deflate
                              #  still holds pending output then; the one-byte write flushes it first)
                              "aimed": comp == "gzip" and tail != ["f"]})
    if not hits:
        c.broken.append("generator: no payload found that leaves 1..5 free bytes in the gzip output buffer (search budget exhausted)")
    # bzip2 (kMinOutput = 1): the 4096-byte output buffer exactly FULL when flush() starts.  bzip2 emits a block
    # only when its 900k block is complete; a single write() whose last byte completes the block leaves
    # avail_in = 0 with the buffer full and output still pending.  The exact length depends on the run-length
    # pre-pass: candidates around 900000-19+1, the codec log tells which one hit (see bz_full_at_flush_events).
    base = bytes(rng.randrange(256) for _ in range(900100))
    for n in range(899978, 899988):
        cases.append({"comp": "bzip2", "ops": ["w" + base[:n].hex(), "f", "w" + P["tiny"].hex()], "data": base[:n] + P["tiny"],
                      "bucket": "write/bzip2/block-completed-by-the-last-byte-of-a-write", "nomodel": True})
    return cases


def gen_oneshot_cases(c, P):
    rng = c.rng
    cases = []
    for n in list(range(0, 20)) + [100, 4000, 4096, 4090]:
        cases.append((9, bytes(rng.randrange(256) for _ in range(n))))
    for nm in P:
        if len(P[nm]) <= 80000:
            cases.append((9, P[nm]))
    for lvl in (0, 1, 6):
        cases.append((lvl, P["rand40k"]))
        cases.append((lvl, P["text"]))
        cases.append((lvl, b""))
    return cases


def decode_multi(kind, file):
    """independent decoder: every member of the file, with Python's zlib/bz2; returns (data, members)"""
    out = b""
    n = 0
    rest = file
    while rest:
        d = zlib.decompressobj(31) if kind == "gzip" else bz2.BZ2Decompressor()
        out += d.decompress(rest)
        if kind == "gzip":
            out += d.flush()
        if not d.eof:
            raise ValueError("truncated member")
        rest = d.unused_data
        n += 1
    return out, n


def cli_decode(kind, file):
    tool = "gzip" if kind == "gzip" else "bzip2"
    if not shutil.which(tool):
        return None
    p = subprocess.run([tool, "-dc"], input=file, stdout=subprocess.PIPE, stderr=subprocess.PIPE, timeout=60)
    return p.returncode, p.stdout


def contract_decoder(c, case, events):
    """The theorems assume a codec contract; test it on what the real codecs did."""
    inst = codeclog.instances(events)
    members = case.get("members")
    for idx, i in enumerate(inst):
        calls = [x for x in i["calls"] if x.rc is not None]
        fn = codeclog.INIT_FNS.get(i["init"], "?")
        stalls = []
        for x in calls:
            if x.ain2 > x.ain or x.aout2 > x.aout:
                c.broken.append("codec contract (cursors monotone): %s %s" % (fn, x.token()[:80]))
            progress = x.used() > 0 or x.produced() > 0
            if x.ain > 0 and x.aout > 0 and not progress and x.rc in (0, 1 if fn == "bzDecompress" else 0) and x.rc != END[fn]:
                c.broken.append("codec contract (progress with input and output space): %s %s" % (fn, x.token()[:80]))
            if x.ain == 0 and not progress and x.rc != END[fn]:
                stalls.append(x.rc)
        # behaviour on avail_in = 0 before END
        if stalls:
            ok = {"inflate": all(r == Z_BUF_ERROR for r in stalls),
                  "bzDecompress": all(r == BZ_OK for r in stalls),
                  "lzma_code": stalls in ([LZMA_OK, LZMA_BUF_ERROR], [LZMA_BUF_ERROR])}.get(fn, True)
            if not ok:
                c.broken.append("codec contract (avail_in=0 before END): %s returned %r" % (fn, stalls))
            c.cov["distribution"]["contract/stall-on-empty-input/" + fn] = c.cov["distribution"].get("contract/stall-on-empty-input/" + fn, 0) + 1
        if members and case["expect"][0] == "ok" and idx < len(members):
            k, m, d = members[idx]
            used = sum(x.used() for x in calls)
            prod = sum(x.produced() for x in calls)
            ends = [j for j, x in enumerate(calls) if x.rc == END[fn]]
            if used != len(m) or prod != len(d) or ends != [len(calls) - 1]:
                c.broken.append("codec contract (END exactly at member end): %s consumed %d of %d, produced %d of %d, END at calls %r of %d"
                                % (fn, used, len(m), prod, len(d), ends, len(calls)))
            got = b"".join(bytes.fromhex(x.outhex) for x in calls if x.outhex != "-")
            if got != d:
                c.broken.append("codec contract (member expands to its payload): %s" % fn)
    if members and case["expect"][0] == "ok" and len(inst) != len(members):
        c.broken.append("decoder instances %d != members %d for an intact stream" % (len(inst), len(members)))


def contract_encoder(c, events, kind):
    calls = [x for x in events if not isinstance(x, tuple) and x.rc is not None]
    for x in calls:
        fn = x.fn
        finish = x.flag == (4 if fn == "deflate" else 2)
        progress = x.used() > 0 or x.produced() > 0
        if not finish:
            if x.rc != (Z_OK if fn == "deflate" else BZ_RUN_OK):
                c.broken.append("codec contract (RUN returns OK): %s %s" % (fn, x.token()[:60]))
            if x.ain > 0 and not progress:
                c.broken.append("codec contract (RUN makes progress): %s %s" % (fn, x.token()[:60]))
        else:
            if x.rc == END[fn]:
                if x.ain2 != 0:
                    c.broken.append("codec contract (END only with all input consumed): %s" % fn)
            elif x.rc not in ((Z_OK, Z_BUF_ERROR) if fn == "deflate" else (BZ_FINISH_OK,)):
                c.broken.append("codec contract (FINISH return code): %s %d" % (fn, x.rc))
            elif not progress:
                c.broken.append("codec contract (FINISH makes progress): %s %s" % (fn, x.token()[:60]))


def main(argv):
    c = Check("C15", argv)
    ok, blog = build_repo(["hx_compress", "vcodec", "shard"])
    if not ok:
        c.broken.append("build of the repo working tree failed: " + blog[-800:])
        return c.finish(rule="build failed")
    c.proofs(extra_trusted=["harness/libvcodec.c (LD_PRELOAD interposer, pass-through logging)",
                            "Python zlib/bz2/lzma and the gzip/bzip2 command line tools as independent codecs"])
    if c.tier == "thorough":
        coqchk(c)
    drv, dlog = build_driver("C15")
    impl = hx_bin("hx_compress")
    P = gen_payloads(c)
    rcases = gen_read_cases(c, P)
    wcases = gen_write_cases(c, P)
    zcases = gen_oneshot_cases(c, P)
    lines = ["K"]
    lines += ["R %s %s %s" % (hexd(x["stream"]), csv(x["frags"]), csv(x["amounts"])) for x in rcases]
    lines += ["W %s %s" % (x["comp"], ",".join(x["ops"]) if x["ops"] else "-") for x in wcases]
    lines += ["Z %d %s" % (lvl, hexd(d)) for lvl, d in zcases]
    for x in rcases:
        c.count(("R", x["stream"], tuple(x["frags"]), tuple(x["amounts"])), nontrivial=len(x["stream"]) > 0, bucket=x["bucket"])
    for x in wcases:
        c.count(("W", x["comp"], tuple(x["ops"])), nontrivial=True, bucket=x["bucket"])
    for lvl, d in zcases:
        c.count(("Z", lvl, d), nontrivial=True, bucket="oneshot/level%d/%s" % (lvl, "empty" if not d else ("<4096" if len(d) < 4096 else ">=4096")))
    c.sample({"case": lines[2][:200]})
    c.sample({"case": lines[len(rcases) // 2][:200]})
    c.sample({"case": lines[1 + len(rcases) + 8][:200]})

    results, events = codeclog.run_logged(impl, lines, timeout_case=15, max_bad=4)
    if len(results) != len(lines):
        c.broken.append("harness hx_compress produced %d results for %d cases" % (len(results), len(lines)))
        return c.finish(rule="harness failed")

    if "SKIPPED" in results:
        c.broken.append("%d cases were not run after repeated hangs/crashes of the harness" % results.count("SKIPPED"))
    r_res = results[1:1 + len(rcases)]
    r_ev = events[1:1 + len(rcases)]
    w_res = results[1 + len(rcases):1 + len(rcases) + len(wcases)]
    w_ev = events[1 + len(rcases):1 + len(rcases) + len(wcases)]
    z_res = results[1 + len(rcases) + len(wcases):]
    z_ev = events[1 + len(rcases) + len(wcases):]

    # --- correspondence: the extracted driver model replayed against the codec-call log
    if drv is None:
        c.broken.append("extraction/driver build failed: " + dlog[-600:])
    else:
        nomodel = set(1 + len(rcases) + i for i, x in enumerate(wcases) if x.get("nomodel"))
        mlines = [lines[0]] + [("K" if i in nomodel else l + " " + codeclog.log_token(ev)) for i, (l, ev) in enumerate(zip(lines[1:], events[1:]), 1)]
        rc, mout, merr = codeclog.run_lines_bigstack(drv, mlines, timeout=1800)
        if len(mout) != len(mlines):
            c.broken.append("model driver produced %d lines for %d cases (rc %s) %s" % (len(mout), len(mlines), rc, merr[-300:]))
        else:
            truncated = [any(isinstance(e, tuple) and e[0] == "X" for e in ev) for ev in events]
            dis = [(l, a, b) for i, (l, a, b, t) in enumerate(zip(lines, mout, results, truncated)) if a != b and b != "SKIPPED" and not t and i not in nomodel]
            c.cov["traces_validated_against_impl"] += len(lines)
            if dis:
                l, a, b = min(dis, key=lambda d: len(d[0]))
                c.broken.append("correspondence driver model vs util/compress.cc: %d disagreement(s); smallest: case %r model=%r impl=%r"
                                % (len(dis), l[:160], a[:200], b[:200]))

    # --- direct oracles
    for x, res, ev in zip(rcases, r_res, r_ev):
        line = "R %s %s %s" % (hexd(x["stream"]), csv(x["frags"]), csv(x["amounts"]))
        rep = {"op": "read", "harness_line": line[:4000], "stream_len": len(x["stream"]), "bucket": x["bucket"], "impl": res[:300],
               "how": "echo '<harness_line>' | hx_compress   (or: feed the stream bytes to any tool reading through util::FilePiece / ReadCompressed)"}
        if res == "SKIPPED":
            continue
        if res.startswith("HANG") or res.startswith("CRASH"):
            c.violation("read-hang-or-crash: reading a %d-byte stream (%s) gave %s" % (len(x["stream"]), x["bucket"], res), rep)
            continue
        kind = x["expect"][0]
        if kind == "ok":
            want = x["expect"][1]
            got = res.split(" ")
            if got[0] != "OK" or (got[1] if len(got) > 1 else "-") != hexd(want):
                c.violation("read-wrong-bytes: %s: expected the %d original bytes, got %s" % (x["bucket"], len(want), res[:120]), rep)
        elif kind == "err":
            if not res.startswith("ERR"):
                c.violation("truncated-stream-not-an-error: %s: %d-byte truncated stream gave %s" % (x["bucket"], len(x["stream"]), res[:120]), rep)
        elif kind == "notok":
            if res.startswith("OK"):
                c.violation("garbage-after-member-accepted: %s gave %s" % (x["bucket"], res[:120]), rep)
        if any(isinstance(e, tuple) and e[0] == "X" for e in ev):
            # too many codec calls for the log budget: output oracle only
            c.cov["distribution"]["log-truncated(no replay)"] = c.cov["distribution"].get("log-truncated(no replay)", 0) + 1
        else:
            contract_decoder(c, x, ev)

    cli_budget = 24 if c.tier == "quick" else 200
    for x, res, ev in zip(wcases, w_res, w_ev):
        line = "W %s %s" % (x["comp"], ",".join(x["ops"]) if x["ops"] else "-")
        rep = {"op": "write", "harness_line": line[:4000], "compression": x["comp"], "ops": [o[:40] for o in x["ops"]][:40],
               "data_len": len(x["data"]), "impl": res[:200],
               "how": "echo '<harness_line>' | MALLOC_PERTURB_=165 hx_compress ; no data at all: printf 'a\\n' | shard -c %s s0 s1 s2 s3" % x["comp"]}
        if res == "SKIPPED":
            continue
        if not res.startswith("OK"):
            c.violation("write-failed: %s writer, ops %s...: %s" % (x["comp"], ",".join(o[:12] for o in x["ops"][:6]), res), rep)
            continue
        file = bytes.fromhex(res.split(" ")[1]) if res.split(" ")[1] != "-" else b""
        if x["comp"] == "none":
            if file != x["data"]:
                c.violation("write-plain-wrong-bytes", rep)
            continue
        try:
            data, members = decode_multi(x["comp"], file)
        except Exception as e:
            c.violation("write-invalid-stream: %s file of %d bytes is not a valid stream (%s)" % (x["comp"], len(file), e), rep)
            continue
        if data != x["data"]:
            c.violation("write-wrong-bytes: %s file expands to %d bytes, %d were written" % (x["comp"], len(data), len(x["data"])), rep)
        if members < 1:
            c.violation("write-empty-file: %s writer with no data produced no member (an empty file is not a valid stream)" % x["comp"], rep)
        if cli_budget > 0 and (len(x["ops"]) < 4 or c.rng.random() < 0.2):
            cli_budget -= 1
            r = cli_decode(x["comp"], file)
            if r is not None and (r[0] != 0 or r[1] != x["data"]):
                c.violation("write-cli-decoder-disagrees: %s -dc exit %d, %d bytes, expected %d" % (x["comp"], r[0], len(r[1]), len(x["data"])), rep)
        contract_encoder(c, ev, x["comp"])
        if x["comp"] == "bzip2":
            nb = bz_full_at_flush_events(ev)
            if nb:
                dist = c.cov["distribution"]
                dist["boundary/bzip2-buffer-exactly-full-at-flush()"] = dist.get("boundary/bzip2-buffer-exactly-full-at-flush()", 0) + nb
        if x["comp"] == "gzip":
            n_w, n_f = partial_drain_events(ev)
            dist = c.cov["distribution"]
            if n_w:
                dist["boundary/gzip-partial-buffer-drained-in-write()"] = dist.get("boundary/gzip-partial-buffer-drained-in-write()", 0) + n_w
            if n_f:
                dist["boundary/gzip-partial-buffer-drained-in-flush()"] = dist.get("boundary/gzip-partial-buffer-drained-in-flush()", 0) + n_f
            if not (n_w or n_f) and x.get("aimed"):
                # (python's zlib and the linked one may emit differently; what counts is that both drains were hit at all, below)
                dist["boundary/aimed-case-missed"] = dist.get("boundary/aimed-case-missed", 0) + 1

    if not c.cov["distribution"].get("boundary/bzip2-buffer-exactly-full-at-flush()") and "SKIPPED" not in results:
        c.broken.append("generator: bzip2 'output buffer exactly full when flush() starts' was not exercised")
    for kind_ in ("write()", "flush()"):
        if not c.cov["distribution"].get("boundary/gzip-partial-buffer-drained-in-%s" % kind_) and "SKIPPED" not in results:
            c.broken.append("generator: the partial-buffer drain in %s (1..5 free bytes, kMinOutput boundary) was not exercised" % kind_)

    # --- util::FilePiece on a pipe (file_piece.cc): one layer of compression is removed, not two -- a
    #     pipe carrying x.gz.gz (any inner x outer codec) yields exactly the inner compressed bytes; plain
    #     and singly compressed pipes yield the text
    ftext = b"".join(b"line %d\n" % i for i in range(400))
    fcases = [("plain", ftext, ftext)]
    for ki in ("gz", "bz", "xz"):
        inner = enc(ki, ftext)
        fcases.append((ki, inner, ftext))
        for ko in ("gz", "bz", "xz"):
            fcases.append(("%s-inside-%s" % (ki, ko), enc(ko, inner), inner))
    flines = ["F %s %s" % (st_.hex(), csv(rand_frags(c.rng, len(st_), 300))) for _, st_, _ in fcases]
    fres, _ = codeclog.run_logged(impl, flines, timeout_case=15, preload=False, max_bad=4)
    for (name, st_, want), res in zip(fcases, fres):
        c.count(("F", name), bucket="filepiece/pipe/%s" % name)
        got = bytes.fromhex(res.split(" ")[1]) if res.startswith("OK ") and res.split(" ")[1] != "-" else (b"" if res.startswith("OK") else None)
        strip1 = lambda b: b[:-1] if b.endswith(b"\n") else b
        if got is None or strip1(got) != strip1(want):
            c.violation("filepiece-pipe-%s: FilePiece on a pipe carrying %s data gave %s instead of %s" % (
                "double-decompression" if "inside" in name else "wrong-bytes", name, res[:60], "the inner compressed bytes" if "inside" in name else "the text"),
                {"op": "FilePiece", "harness_line": ("F %s -" % st_.hex())[:4000], "impl": res[:200],
                 "how": "printf ... | gzip | gzip | <any tool reading stdin through util::FilePiece>   (or hx_compress: F <hex> -)"})

    # --- truncation seen by util::FilePiece, on a pipe and on a REGULAR FILE (mmap path: Initialize tests the first
    #     kMagicSize bytes of the mapping): a compressed stream cut at kMagicSize-1 / kMagicSize / kMagicSize+1, a few
    #     bytes later, in the middle and one byte before the end.  From kMagicSize bytes on the magic is complete: the cut
    #     must be an error.  Below kMagicSize no magic can be recognised: the bytes are plain data (see Not covered).
    KM = 6
    kres0, _ = codeclog.run_logged(impl, ["K"], timeout_case=10, preload=False)
    if kres0 and kres0[0].startswith("K "):
        KM = int(kres0[0].split()[1])
    tdir = os.path.join(codeclog.scratch_dir(), "c15-fm-%d" % os.getpid())
    os.makedirs(tdir, exist_ok=True)
    tcases = []
    for ki in ("gz", "bz", "xz"):
        whole = enc(ki, ftext)
        for cut in sorted(set([KM - 1, KM, KM + 1, KM + 2, 10, 18, len(whole) // 2, len(whole) - 1, len(whole)])):
            tcases.append((ki, cut, whole[:cut], whole))
    tlines = []
    for i, (ki, cut, st_, whole) in enumerate(tcases):
        pth = os.path.join(tdir, "t%d" % i)
        open(pth, "wb").write(st_)
        tlines.append("FM %s" % pth)
        tlines.append("F %s %s" % (st_.hex(), csv(rand_frags(c.rng, len(st_), 7))))
    tres, _ = codeclog.run_logged(impl, tlines, timeout_case=15, preload=False, max_bad=6)
    for i, (ki, cut, st_, whole) in enumerate(tcases):
        for res, path in ((tres[2 * i], "regular-file"), (tres[2 * i + 1], "pipe")):
            c.count(("FT", ki, cut, path), bucket="filepiece/%s/truncated-%s" % (path, "below-kMagicSize=plain" if cut < KM else "at-kMagicSize" if cut == KM else "whole" if cut == len(whole) else "later"))
            if res == "SKIPPED":
                continue
            rep = {"op": "FilePiece", "path": path, "codec": ki, "cut": cut, "stream_hex": st_.hex()[:400], "impl": res[:120],
                   "how": "head -c %d file.%s > t; <any tool reading stdin through util::FilePiece> < t   (hx_compress: FM <file>; pipe: F <hex> <fragments>)" % (cut, ki)}
            if cut == len(whole):
                if not res.startswith("OK ") or bytes.fromhex(res.split(" ")[1]) != ftext[:-1]:
                    c.violation("filepiece-%s-wrong-bytes: a whole %s stream read through FilePiece (%s) gave %s" % (path, ki, path, res[:60]), rep)
            elif cut >= KM:
                if not res.startswith("ERR"):
                    c.violation("filepiece-truncated-accepted: a %s stream cut after %d bytes (kMagicSize = %d) and opened as a %s is read without an error: %s (stream %s)" % (
                        ki, cut, KM, path, res[:80], st_.hex()[:40]), rep)
            elif path == "pipe" and st_.startswith(MAGIC[ki]):
                # on a pipe ReadCompressed sees the complete (2- or 3-byte) magic in the short header: an error as well
                if not res.startswith("ERR"):
                    c.violation("filepiece-truncated-accepted: a %s stream cut after %d bytes read from a pipe gives %s" % (ki, cut, res[:60]), rep)
            else:
                # regular file shorter than kMagicSize: Initialize does not look for a magic, the bytes are plain data
                if res != "OK " + st_.hex():
                    c.violation("filepiece-short-plain-wrong: the %d bytes %s (shorter than any magic test) read through FilePiece (%s) gave %s" % (cut, st_.hex(), path, res[:60]), rep)
    shutil.rmtree(tdir, ignore_errors=True)

    for (lvl, d), res, ev in zip(zcases, z_res, z_ev):
        rep = {"op": "GZCompress", "harness_line": ("Z %d %s" % (lvl, hexd(d)))[:4000], "level": lvl, "data_len": len(d), "impl": res[:200]}
        if res == "SKIPPED":
            continue
        if not res.startswith("OK"):
            c.violation("gzcompress-failed: %d bytes level %d: %s" % (len(d), lvl, res), rep)
            continue
        out = bytes.fromhex(res.split(" ")[1]) if res.split(" ")[1] != "-" else b""
        try:
            back, members = decode_multi("gzip", out)
        except Exception as e:
            c.violation("gzcompress-invalid: %d bytes level %d: %s" % (len(d), lvl, e), rep)
            continue
        if back != d or members != 1:
            c.violation("gzcompress-roundtrip: %d bytes level %d expands to %d bytes in %d members" % (len(d), lvl, len(back), members), rep)
        contract_encoder(c, ev, "gzip")

    # --- thorough: all cases again through the ASan+UBSan build (no interposer): uninitialised or
    #     out-of-bounds use in the driver code shows up as a sanitizer report
    if c.tier == "thorough":
        os.environ["HX_TMPDIR"] = codeclog.scratch_dir()
        asan_lines(c, "hx_compress", [l for l in lines if len(l) < 400000], what="(ReadCompressed/WriteCompressed/GZCompress)")

    # --- thorough: GZCompress beyond what zlib takes in one call (avail_in is an unsigned int): the harness
    #     generates the record itself and reports what the result expands to
    if c.tier == "thorough":
        big = ["ZL %d" % n for n in (4294967295, 4294967296, 4294967301, 8589934590)]
        env = dict(os.environ, HX_CASE_TIMEOUT="900", HX_TMPDIR=codeclog.scratch_dir())
        rcb, bout, berr = run_lines(impl, big, timeout=3000, env=env)
        for l, o in zip(big, bout + ["(no answer)"] * len(big)):
            n = int(l.split()[1])
            c.count(("ZL", n), bucket="oneshot/above-4GiB")
            if o.split(" ")[0] != "OK" or o.split(" ")[2:] != [str(n)]:
                c.violation("gzcompress-large-record: GZCompress of %d bytes expands to %s (silent truncation modulo 2^32?)" % (n, o),
                            {"op": "GZCompress", "harness_line": l, "impl": o, "how": "echo '%s' | hx_compress  (needs ~5 GB of memory)" % l})

    # --- the real tool writing through ThreadedBufferedStream<WriteCompressed>
    sd = os.path.join(codeclog.scratch_dir(), "c15-shard-%d" % os.getpid())
    for comp in ("gzip", "bzip2"):
        shutil.rmtree(sd, ignore_errors=True)
        os.makedirs(sd)
        inp = b"a\n"
        names = ["s%d" % i for i in range(4)]
        env = dict(os.environ, MALLOC_PERTURB_="165")
        st, so, se = codeclog.run_tool_limited([repo_bin("shard"), "-c", comp] + names, stdin=inp, timeout=30, cwd=sd, env=env)
        c.count(("shard", comp), bucket="tool/shard-c-%s-empty-shards" % comp)
        rep = {"op": "shard", "how": "printf 'a\\n' | MALLOC_PERTURB_=165 shard -c %s s0 s1 s2 s3" % comp, "status": st}
        if st != 0:
            c.violation("shard-empty-shard-crash: printf 'a\\n' | shard -c %s s0 s1 s2 s3 ended with status %s" % (comp, st), rep)
        else:
            tot = b""
            for n in names:
                try:
                    data, members = decode_multi(comp, open(os.path.join(sd, n), "rb").read())
                    if members < 1:
                        raise ValueError("empty file")
                    tot += data
                except Exception as e:
                    c.violation("shard-invalid-file: %s shard %s is not a valid stream (%s)" % (comp, n, e), rep)
            if tot != inp:
                c.violation("shard-wrong-bytes: shards expand to %r" % tot[:40], rep)
    # --- a tool reading compressed stdin through util::FilePiece (file_piece.cc falls back to ReadCompressed):
    #     the same lines must come out whether the input is plain, gz, bz2, xz, multi-member or truncated->error
    text = b"".join(b"key%d\tvalue %d\n" % (i % 13, i) for i in range(3000))
    variants = {"gz": enc("gz", text), "bz": enc("bz", text), "xz": enc("xz", text),
                "gz+bz+xz members": enc("gz", text[:20000]) + enc("bz", text[20000:30000]) + enc("xz", text[30000:]),
                "gz members at a refill boundary": None}
    m1 = None
    for n in range(16384 + 6 - 40, 16384 + 6):
        cand = enc("gz", bytes(c.rng.randrange(65, 91) for _ in range(n - 1)) + b"\n", 0)    # one long line of letters
        if len(cand) == 6 + 16384:
            m1 = cand
            break
    if m1 is not None:
        variants["gz members at a refill boundary"] = m1 + enc("gz", text)
    ref = None
    for name, stream in [("plain", text)] + [(k, v) for k, v in variants.items() if v is not None]:
        shutil.rmtree(sd, ignore_errors=True)
        os.makedirs(sd)
        st, so, se = codeclog.run_tool_limited([repo_bin("shard"), "-f", "1", "a", "b", "c"], stdin=stream, timeout=60, cwd=sd)
        outs = [open(os.path.join(sd, n), "rb").read() if os.path.exists(os.path.join(sd, n)) else None for n in ("a", "b", "c")]
        c.count(("shard-input", name), bucket="tool/shard-reads-%s-stdin" % name.split(" ")[0])
        rep = {"op": "shard", "how": "<%s input, %d bytes> | shard -f 1 a b c" % (name, len(stream)), "status": st}
        if name == "plain":
            ref = outs
            continue
        if name == "gz members at a refill boundary":
            want_prefix = zlib.decompress(m1, 31)
            # the first member's bytes are extra lines in front; compare the multiset of the known text lines only
            got = b"".join(o or b"" for o in outs)
            if st != 0 or sorted(l for l in got.split(b"\n") if l.startswith(b"key")) != sorted(l for l in text.split(b"\n") if l):
                c.violation("tool-loses-lines-of-later-member: %s: status %s" % (name, st), rep)
            continue
        if st != 0 or outs != ref:
            c.violation("tool-compressed-input-differs: shard on %s input gives different files than on the plain input (status %s)" % (name, st), rep)
    for name in ("gz", "bz", "xz"):
        cut = variants[name][:len(variants[name]) * 2 // 3]
        shutil.rmtree(sd, ignore_errors=True)
        os.makedirs(sd)
        st, so, se = codeclog.run_tool_limited([repo_bin("shard"), "a", "b"], stdin=cut, timeout=30, cwd=sd)
        c.count(("shard-trunc", name), bucket="tool/shard-reads-truncated-%s-stdin" % name)
        if st == 0 or st == "timeout":
            c.violation("tool-truncated-input-%s: shard on a truncated %s stream ends with status %s" % ("hangs" if st == "timeout" else "accepted", name, st),
                        {"op": "shard", "how": "head -c %d text.%s | shard a b" % (len(cut), name), "status": st})
    shutil.rmtree(sd, ignore_errors=True)

    return c.finish(level="proof",
                    rule="read: every payload class (empty, 1 byte, tiny, text, incompressible 5k/40k, 70k zeros) x {gz,bz,xz} x fragmentations (whole, random, 1-byte, every split point of small streams, 16384-boundary) x request sizes; 2-4 concatenated members of mixed codecs; member ends placed around the 16384-byte refill; truncation at every byte of small streams and at buffer boundaries of large ones; plain data of length 0-13 and large, near-magic prefixes; write: op sequences (writes of 0..70000 bytes, flush positions, none at all) x {none,gzip,bzip2}; GZCompress sizes 0-19, around 4096, large, levels 0/1/6/9. distinct = distinct non-empty cases",
                    assumptions=["the codecs obey the contract stated as Section hypotheses (tested on every logged call of this run: cursors monotone, progress, END exactly at member end, return code on avail_in=0 before END)",
                                 "fragment delivery: one read(2) returns min(request, rest of the current fragment) (the harness writes a fragment only when the pipe is empty)",
                                 "write sizes of 2^32 bytes and more (the kSizeMax chunking recursion of WriteStream::write) are modelled and proved but never exercised"])


if __name__ == "__main__":
    sys.exit(main(sys.argv[1:]))
