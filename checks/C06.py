"""C06 -- shard partitions the input by key, stably, into always-valid files."""
import bz2
import collections
import os
import shutil
import subprocess
import sys
import zlib

sys.path.insert(0, os.path.join(os.path.dirname(os.path.abspath(__file__)), "..", "tools"))
from checklib import *  # noqa
import codeclog

M64 = (1 << 64) - 1
SEED = 47849374332489


def murmur64a(data, seed):
    """independent reference implementation (MurmurHash64A)"""
    m = 0xc6a4a7935bd1e995
    r = 47
    h = (seed ^ (len(data) * m)) & M64
    n8 = len(data) // 8
    for i in range(n8):
        k = int.from_bytes(data[8 * i:8 * i + 8], "little")
        k = (k * m) & M64
        k ^= k >> r
        k = (k * m) & M64
        h ^= k
        h = (h * m) & M64
    tail = data[8 * n8:]
    if tail:
        h ^= int.from_bytes(tail, "little")
        h = (h * m) & M64
    h ^= h >> r
    h = (h * m) & M64
    h ^= h >> r
    return h


def parse_spec(spec):
    out = []
    for part in spec.split(","):
        if "-" in part:
            a, b = part.split("-", 1)
            out.append((int(a) - 1 if a else 0, int(b) if b else None))
        else:
            out.append((int(part) - 1, int(part)))
    return sorted(out)


def key_parts(line, spec, delim):
    """cut-like key of a line: the selected field ranges (each range joined by the delimiter)"""
    fields = line.split(delim)
    parts = []
    for b, e in parse_spec(spec):
        if b >= len(fields):
            break
        parts.append(delim.join(fields[b:e]))
        if e is None or e >= len(fields):
            break
    return tuple(parts)


def ref_hash(line, spec, delim):
    h = SEED
    for p in key_parts(line, spec, delim):
        h = murmur64a(p, h)
    return h


def records(data):
    """FilePiece records with strip_cr=False (the input lines as the user wrote them)"""
    if not data:
        return []
    parts = data.split(b"\n")
    if parts[-1] == b"":
        parts.pop()
    return parts


def decode(comp, file):
    if comp == "none":
        return file, 1
    out = b""
    n = 0
    rest = file
    while rest:
        d = zlib.decompressobj(31) if comp == "gzip" else bz2.BZ2Decompressor()
        out += d.decompress(rest)
        if comp == "gzip":
            out += d.flush()
        if not d.eof:
            raise ValueError("truncated member")
        rest = d.unused_data
        n += 1
    return out, n


def expected_names(prefix, number):
    digits = 0
    compare = (number - 1) & 0xffffffff
    while compare:
        digits += 1
        compare //= 10
    return [prefix + str(i).zfill(digits) for i in range(number)]


VOCAB = [b"a", b"b", b"cc", b"delta", b"", b"e e", b"0", b"the quick", b"\xc3\xa9", b"x" * 40]


def gen_input(rng, kind, delim):
    def field():
        return rng.choice(VOCAB)
    lines = []
    if kind == "empty":
        return b""
    if kind == "one":
        return b"a\n"
    n = {"few": rng.randrange(1, 6), "some": rng.randrange(20, 120), "many": rng.randrange(1500, 3000)}.get(kind, 40)
    for _ in range(n):
        nf = rng.randrange(1, 5)
        fs = [field() for _ in range(nf)]
        if fs[-1] == b"":
            fs[-1] = b"z"       # no trailing delimiter (that class is generated separately)
        lines.append(delim.join(fs))
    if kind == "many":
        if rng.random() < 0.6:
            lines.append(b"L" * 20000 + delim + b"tail")        # longer than two writer blocks
        lines += [lines[0]] * 5
    if kind == "some":
        lines.append(b"")
        lines.append(b"\x00nul" + delim + b"x")
        lines += lines[:7]                                   # exact duplicates
    data = b"\n".join(lines) + b"\n"
    if rng.random() < 0.3:
        data = data[:-1]                                     # no final newline
    return data


def gz_partial_drain_input(rng, bs, limit=400 << 20):
    """Hardly compressible text lines (base64 alphabet, 76 per line) such that, written through ONE gzip shard in
    blocks of bs bytes, some write() ends with 1..5 free bytes in the writer's 4096-byte output buffer: the next
    write()/flush() must then hand over exactly the filled part (C15's ensure_output split; the seeded C15-m3 /
    C06-p2 change hands over the whole buffer and the .gz is corrupt).  deflate is simulated with the writer's
    parameters; the input is cut two blocks behind the first hit.  Returns (data, free bytes at the hit) or None."""
    import zlib
    alpha = b"ABCDEFGHIJKLMNOPQRSTUVWXYZabcdefghijklmnopqrstuvwxyz0123456789+/"
    # one attempt has about 73 emission events, each hitting with probability 5/4096: about 9% per attempt.
    # 300 attempts (0.1 s each, 11 expected) leave a miss probability below 1e-12; with 6 attempts the search
    # failed more often than not and the thorough tier raised a (false) broken-tie alarm on the unchanged tree.
    for _ in range(300):
        raw = rng.getrandbits(8 * 76 * 16000).to_bytes(76 * 16000, "little")       # 1.2 MB per attempt
        text = bytes(alpha[b & 63] for b in raw)
        data = b"\n".join(text[i:i + 76] for i in range(0, len(text), 76)) + b"\n"
        co = zlib.compressobj(9, zlib.DEFLATED, 31, 8)
        emitted = 0
        for k in range(0, len(data), bs):
            emitted += len(co.compress(data[k:k + bs]))
            if emitted > 4096 and emitted % 4096 >= 4091:
                cut = data.find(b"\n", min(len(data) - 1, k + 3 * bs))
                return (data if cut < 0 else data[:cut + 1]), 4096 - emitted % 4096
        limit -= len(data)
        if limit <= 0:
            break
    return None


def main(argv):
    c = Check("C06", argv)
    ok, blog = build_repo(["hx_shard", "shard", "dedupe", "vcodec"])
    if not ok:
        c.broken.append("build of the repo working tree failed: " + blog[-800:])
        return c.finish(rule="build failed")
    c.proofs(extra_trusted=["Python zlib/bz2 and the gzip/bzip2 command line tools as independent decoders",
                            "independent MurmurHash64A reference in checks/C06.py"])
    if c.tier == "thorough":
        coqchk(c)
    drv, dlog = build_driver("C06")
    if drv is None:
        c.broken.append("extraction/driver build failed: " + dlog[-600:])
    hx = hx_bin("hx_shard")
    # how the tool reads its lines, as regenerated from shard_main.cc (the model follows the same flag)
    try:
        STRIP_CR = "shard_strip_cr : bool := true" in open(os.path.join(COQ, "theories", "Gen", "Src_shard.v")).read()
    except OSError:
        STRIP_CR = False
    BS = 8192                                   # kBlockSize as regenerated (the driver prints the model's constant)
    if drv:
        kout_ = run_lines(drv, ["K"])[1]
        if kout_ and kout_[0].startswith("K "):
            BS = int(kout_[0].split()[1])
    rng = c.rng
    work = os.path.join(codeclog.scratch_dir(), "c06-%d" % os.getpid())
    shutil.rmtree(work, ignore_errors=True)
    os.makedirs(work)
    env = dict(os.environ, MALLOC_PERTURB_="165")

    # ------------------------------------------------------------ naming (no files created)
    nlines, nexp = [], []
    numbers = list(range(1, 130)) + [999, 1000, 1001, 9999, 10000, 10001, 12345]
    for number in numbers:
        prefix = rng.choice(["out", "p.", "dir/x-", "0"])
        nlines.append("N -p %s -n %d" % (prefix, number))
        nexp.append((prefix, number))
        c.count(("names", prefix, number), bucket="names/prefix-number/%s" % ("n<=10" if number <= 10 else "n<=100" if number <= 100 else "n>100"))
    rc, nout, nerr = run_lines(hx, nlines)
    if len(nout) != len(nlines):
        c.broken.append("hx_shard died on naming cases: %s" % nerr[-300:])
    else:
        mlines = ["N %s %d" % (p.encode().hex(), n) for p, n in nexp]
        mout = run_lines(drv, mlines)[1] if drv else []
        for (p, n), o, mo in zip(nexp, nout, mout or [None] * len(nout)):
            names = [bytes.fromhex(x).decode() for x in o.split(" ")[1].split(",")] if o.startswith("OK") else None
            rep = {"op": "names", "how": "shard --prefix %s --number %d" % (p, n), "impl": o[:300]}
            if names != expected_names(p, n):
                c.violation("names-wrong: --prefix %s --number %d gives %s..., expected %s..." % (p, n, str(names)[:80], expected_names(p, n)[:3]), rep)
            elif len(set(names)) != n or names != sorted(names):
                c.violation("names-not-distinct-sorted: --prefix %s --number %d" % (p, n), rep)
            if mo is not None and mo != o.rsplit(" ", 1)[0]:
                c.broken.append("correspondence names model vs ParseArgs: -p %s -n %d model=%s impl=%s" % (p, n, mo[:100], o[:100]))
        c.cov["traces_validated_against_impl"] += len(nlines)

    # ------------------------------------------------------------ option handling: real ParseArgs vs the model
    combos = []
    for fields in ("1-", "1", "2-3", "1,3", "3,1", "0", "2-1", "x", "1-2,2-3", ""):
        combos.append({"fields": fields, "prefix": "p", "number": 3, "outputs": [], "compress": "none"})
    for prefix in (None, "p", ""):
        for number in (None, 0, 1, 2, 10, 11):
            for outputs in ([], ["a"], ["a", "b"]):
                for compress in ("none", "gzip", "bzip2", "xz", "GZIP", ""):
                    if rng.random() < (1.0 if compress in ("none", "gzip") else 0.34):
                        combos.append({"fields": "1-", "prefix": prefix, "number": number, "outputs": outputs, "compress": compress})
    alines, mlines = [], []
    for o in combos:
        argv_ = ["-f", o["fields"]] if o["fields"] != "" else ["-f", ""]
        if o["prefix"] is not None:
            argv_ += ["--prefix", o["prefix"]]
        if o["number"] is not None:
            argv_ += ["--number", str(o["number"])]
        argv_ += ["-c", o["compress"]] + o["outputs"]
        if "" in argv_:
            continue                                     # the line protocol of the harness cannot carry empty arguments
        alines.append("N " + " ".join(argv_))
        mlines.append("A %s %s %s %s %s" % (o["fields"].encode().hex(), "-" if o["prefix"] is None else (o["prefix"].encode().hex() or "e"),
                                            "-" if o["number"] is None else o["number"],
                                            ",".join(x.encode().hex() for x in o["outputs"]) or "-", o["compress"].encode().hex()))
        c.count(("args", tuple(argv_)), bucket="options/%s" % ("prefix-number" if not o["outputs"] else "explicit-outputs"))
    rc, aout, aerr = run_lines(hx, alines)
    if len(aout) != len(alines):
        c.broken.append("hx_shard died on option cases: %s" % aerr[-300:])
    elif drv:
        rc, amo, _ = run_lines(drv, mlines)
        for l, a, b in zip(alines, amo, aout):
            if a != b:
                c.broken.append("correspondence option handling model vs ParseArgs: %s model=%s impl=%s" % (l, a[:100], b[:100]))
                break
        c.cov["traces_validated_against_impl"] += len(alines)
        # oracle: whatever is accepted has at least one output (the shard index is taken modulo that number)
        for l, b in zip(alines, aout):
            if b.startswith("OK") and b.split(" ")[1] in ("-", ""):
                c.violation("accepted-arguments-without-output: %s accepted with no output file (division by zero on the first line)" % l,
                            {"op": "args", "how": "shard " + l[2:]})

    # ------------------------------------------------------------ tool runs
    specs = ["1-", "1", "2", "1-2", "2-", "1,3"]
    delims = [b"\t", b" ", b","]
    runs = []
    for n in range(1, 18):
        for comp in ("none", "gzip", "bzip2"):
            runs.append({"n": n, "comp": comp, "spec": rng.choice(specs), "delim": rng.choice(delims),
                         "kind": rng.choice(["few", "some", "some", "many"] if comp != "bzip2" else ["few", "some"]),
                         "naming": rng.choice(["prefix", "explicit", "explicit-o"])})
    for comp in ("none", "gzip", "bzip2"):
        for kind in ("empty", "one"):
            for n in (1, 4, 11):
                runs.append({"n": n, "comp": comp, "spec": "1-", "delim": b"\t", "kind": kind, "naming": "prefix"})
    if c.tier == "thorough":
        for _ in range(150):
            runs.append({"n": rng.randrange(1, 18), "comp": rng.choice(("none", "gzip", "bzip2")), "spec": rng.choice(specs),
                         "delim": rng.choice(delims), "kind": rng.choice(["few", "some", "many"]), "naming": rng.choice(["prefix", "explicit"])})
    # lines that end exactly at / around the 8192-byte block of the per-shard writer thread
    # (ThreadedBufferedStream::write spills when current_ + length > end_; '\n' goes through Ensure(1))
    for delta in (-2, -1, 0, 1, 2):
        for comp in ("none", "gzip"):
            runs.append({"n": 1 if delta % 2 == 0 else 2, "comp": comp, "spec": "1-", "delim": b"\t", "kind": "block-edge%+d" % delta, "naming": "prefix"})
    # HISTORY: the output names already exist from an earlier run with longer files (shard must truncate
    # them: CreateOrThrow opens with O_TRUNC).  A big plain run first, then the run under test.
    for n, comp, kind in ((3, "none", "few"), (4, "gzip", "one"), (5, "bzip2", "empty"), (2, "none", "empty"), (6, "gzip", "few"), (3, "none", "some")):
        runs.append({"n": n, "comp": comp, "spec": "1-", "delim": b"\t", "kind": kind, "naming": rng.choice(["prefix", "explicit"]), "history": True})
    # a first line longer than two FilePiece windows (2.6 MB: the newline search goes through two Shift()s), stdin a
    # REGULAR FILE (mmap path), followed by short lines with other keys: every line in the shard of ITS key
    runs.append({"n": 4, "comp": "none", "spec": "1", "delim": b"\t", "kind": "long-first-line", "naming": "prefix", "stdin_file": True})
    runs.append({"n": 3, "comp": "none", "spec": "1", "delim": b"\t", "kind": "long-first-line", "naming": "explicit", "stdin_file": False})
    # a gzip shard whose writer gets a block while its output buffer has 1..5 bytes free (steered, see gz_partial_drain_input)
    runs.append({"n": 1, "comp": "gzip", "spec": "1-", "delim": b"\t", "kind": "gz-partial-drain", "naming": "prefix"})
    if c.tier == "thorough":
        runs.append({"n": 1, "comp": "gzip", "spec": "1-", "delim": b"\t", "kind": "gz-partial-drain", "naming": "explicit"})
    # carriage returns before the newline are data (finding F-C06-cr-stripped, fixed); trailing delimiter (C10's finding, fixed)
    runs.append({"n": 5, "comp": "none", "spec": "1-", "delim": b"\t", "kind": "cr", "naming": "prefix"})
    for n, comp in ((1, "none"), (3, "gzip"), (4, "none"), (2, "bzip2")):
        runs.append({"n": n, "comp": comp, "spec": rng.choice(specs), "delim": b"\t", "kind": "cr-random", "naming": "prefix"})
    runs.append({"n": 7, "comp": "none", "spec": "1", "delim": b"\t", "kind": "trailing-delim", "naming": "prefix"})

    pending = []
    cli_budget = 12 if c.tier == "quick" else 60
    for ri, r in enumerate(runs):
        n, comp, spec, delim = r["n"], r["comp"], r["spec"], r["delim"]
        if r["kind"].startswith("block-edge"):
            dlt = int(r["kind"][len("block-edge"):])
            # every line is 8192+delta bytes with its newline: the k-th line ends k*delta bytes off a block edge
            data = b"".join(bytes([97 + i]) * (8191 + dlt) + b"\n" for i in range(5)) + b"tail\n"
        elif r["kind"] == "gz-partial-drain":
            hit = gz_partial_drain_input(rng, BS)
            if hit is None:
                c.broken.append("no input found that leaves 1..5 free bytes in the gzip writer's buffer at a block boundary")
                continue
            data = hit[0]
        elif r["kind"] == "long-first-line":
            data = b"first\t" + bytes(rng.randrange(97, 123) for _ in range(2600000 + rng.randrange(5000))) + b"\n" + \
                   b"".join(b"key%d\tshort line %06d\n" % (i % 9, i) for i in range(70000)) + b"first\tagain\n"
        elif r["kind"] == "cr":
            data = b"a\r\nb\r\nplain\nx\r\r\n"
        elif r["kind"] == "cr-random":
            # some lines end in CR LF, some in CR CR LF, some contain a CR in the middle, the last one may end in a bare CR
            ls = gen_input(rng, "some", delim).split(b"\n")
            data = b"\n".join(l + rng.choice([b"", b"\r", b"\r", b"\r\r", b"\rx"]) for l in ls)
        elif r["kind"] == "trailing-delim":
            data = b"".join(b"k%d\t\nk%d\tv\nk%d\n" % (i, i, i) for i in range(12))
        else:
            data = gen_input(rng, r["kind"], delim)
        d = os.path.join(work, "r%d" % ri)
        os.makedirs(os.path.join(d, "dir"), exist_ok=True)
        if r["naming"] == "prefix":
            names = expected_names("s.", n)
            args = ["--prefix", "s.", "--number", str(n)]
        elif r["naming"] == "explicit":
            names = ["f%d.out" % i for i in range(n)]
            args = names
        else:
            names = ["o%d" % i for i in range(n)]
            args = ["-o"] + names
        if r.get("history"):
            # an earlier, bigger run into the same names, uncompressed
            old_in = b"".join(b"old line %d with some padding to make the file long\n" % i for i in range(3000))
            st0, _, _ = codeclog.run_tool_limited([repo_bin("shard"), "-c", "none"] + args, stdin=old_in, timeout=60, cwd=d, env=env)
            if st0 != 0:
                c.broken.append("history run of shard failed with status %s" % st0)
        argv_ = [repo_bin("shard"), "-f", spec, "-d", delim.decode(), "-c", comp] + args
        logp = os.path.join(d, "codec.log")
        renv = dict(env)
        if comp != "none":
            renv.update({"LD_PRELOAD": hx_bin("libvcodec.so"), "VCODEC_LOG": logp, "VCODEC_DATA": "0"})
        st, so, se = codeclog.run_tool_limited(argv_, stdin=data, timeout=60, cwd=d, env=renv, stdin_file=bool(r.get("stdin_file")))
        bucket = "tool/n=%s/%s/%s/%s%s" % ("1" if n == 1 else "2-9" if n < 10 else "10-17", comp, r["kind"], r["naming"], "/names-exist-from-a-bigger-run" if r.get("history") else "")
        c.count(("run", ri, n, comp, spec, data), bucket=bucket)
        how = "printf %%s '<input>' | shard -f %s -d '%s' -c %s %s" % (spec, delim.decode().replace("\t", "\\t"), comp, " ".join(args))
        if r.get("stdin_file"):
            how = "shard -f %s -d '%s' -c %s %s < input-file   (stdin is a regular file)" % (spec, delim.decode().replace("\t", "\\t"), comp, " ".join(args))
        if r["kind"] == "long-first-line":
            how += "   [input: one line of %d bytes with key 'first', then 70000 short lines with keys key0..key8 (1.6 MB), then a second line with key 'first']" % data.index(b"\n")
        if r.get("history"):
            how = "seq 3000 | sed 's/^/old line /' | shard -c none %s ; " % " ".join(args) + how
        rep = {"op": "shard", "n": n, "compression": comp, "fields": spec, "delim_hex": delim.hex(), "args": args,
               "input_hex": data.hex()[:6000], "input_len": len(data), "how": how, "status": st, "kind": r["kind"]}
        if len(c.cov["samples"]) < 4:
            c.sample({"how": how, "input": repr(data[:80])})
        if st != 0:
            c.violation("shard-failed: status %s for n=%d %s (%s input): %s" % (st, n, comp, r["kind"], se.decode("utf-8", "replace")[-120:]), rep)
            continue
        got = sorted(x for x in os.listdir(d) if x not in ("dir", "codec.log"))
        if got != sorted(names):
            c.violation("wrong-file-names: got %s expected %s" % (got[:5], names[:5]), rep)
            continue
        outs = []
        bad = False
        for nm in names:
            raw = open(os.path.join(d, nm), "rb").read()
            try:
                dec, members = decode(comp, raw)
            except Exception as e:
                c.violation("invalid-output-file: %s shard %s (%d bytes) is not a valid %s stream: %s" % (comp, nm, len(raw), comp, e), rep)
                bad = True
                break
            if members < 1:
                c.violation("empty-output-file: %s shard %s is an empty file, not a valid empty %s stream" % (comp, nm, comp), rep)
                bad = True
                break
            if comp != "none" and cli_budget > 0 and (len(raw) < 40 or rng.random() < 0.05):
                cli_budget -= 1
                tool = "gzip" if comp == "gzip" else "bzip2"
                if shutil.which(tool):
                    p = subprocess.run([tool, "-dc"], input=raw, stdout=subprocess.PIPE, stderr=subprocess.PIPE, timeout=60)
                    if p.returncode != 0 or p.stdout != dec:
                        c.violation("cli-decoder-disagrees: %s -dc on shard %s: exit %d" % (tool, nm, p.returncode), rep)
            outs.append(dec)
        if bad:
            continue
        recs = records(data)
        olines = []
        for i, o in enumerate(outs):
            if o and not o.endswith(b"\n"):
                c.violation("shard-content-not-lines: shard %d does not end in a newline" % i, rep)
            olines.append(records(o))
        # (1) partition
        cin = collections.Counter(recs)
        cout = collections.Counter(l for o in olines for l in o)
        if cin != cout:
            missing = list((cin - cout).elements())[:2]
            extra = list((cout - cin).elements())[:2]
            c.violation("not-a-partition: %s input, n=%d: lines missing %r, lines that were not in the input %r" % (r["kind"], n, missing, extra),
                        dict(rep, missing=[m.hex() for m in missing], extra=[m.hex() for m in extra]))
            continue
        # (2) a line goes to one shard only, and each shard keeps the input order
        where = {}
        multi = False
        for i, o in enumerate(olines):
            for l in o:
                if where.setdefault(l, i) != i:
                    multi = True
        if multi:
            c.violation("same-line-in-two-shards", rep)
            continue
        for i, o in enumerate(olines):
            if o != [l for l in recs if where[l] == i]:
                c.violation("order-not-preserved: shard %d is not the input restricted to its lines, in input order" % i, rep)
                break
        # (3) equal keys co-located, (4) index = Murmur(key) mod n (independent reference)
        bykey = {}
        for l in recs:
            k = key_parts(l, spec, delim)
            if bykey.setdefault(k, where[l]) != where[l]:
                c.violation("equal-keys-in-different-shards: key %r (-f %s) is in shards %d and %d (%s)" % (k, spec, bykey[k], where[l], r["kind"]),
                            dict(rep, key=[x.hex() for x in k]))
                break
        else:
            for l in recs:
                want = ref_hash(l, spec, delim) % n
                if where[l] != want:
                    c.violation("index-not-hash-mod-n: line %r is in shard %d, MurmurHash64A(key, seed) mod %d = %d" % (l[:40], where[l], n, want),
                                dict(rep, line_hex=l.hex()))
                    break
        # (4b) the file depends only on the line: reversed input, and every line alone
        if r["kind"] in ("few", "some") and recs:
            d2 = os.path.join(d, "dir")
            data2 = b"\n".join(reversed(recs)) + b"\n"
            st2, _, _ = codeclog.run_tool_limited([repo_bin("shard"), "-f", spec, "-d", delim.decode(), "-c", "none"] + ["m%d" % i for i in range(n)],
                                 stdin=data2, timeout=60, cwd=d2, env=env)
            if st2 == 0:
                for i in range(n):
                    for l in records(open(os.path.join(d2, "m%d" % i), "rb").read()):
                        if where.get(l) != i:
                            c.violation("index-depends-on-position: line %r moved from shard %s to %d when the input was reversed" % (l[:40], where.get(l), i), rep)
                            break
            c.count(("reversed", ri), bucket="metamorphic/reversed-input")
        # (5) dedupe commutes with sharding (multiset)
        if r["kind"] in ("few", "some", "many") and ri % 3 == 0:
            dd = [repo_bin("dedupe"), "-f", spec, "-d", delim.decode()]
            st3, whole, _ = codeclog.run_tool_limited(dd, stdin=b"".join(l + b"\n" for l in recs), timeout=60)
            parts = []
            okd = st3 == 0
            for o in outs:
                s4, po, _ = codeclog.run_tool_limited(dd, stdin=o, timeout=60)
                okd = okd and s4 == 0
                parts += records(po)
            c.count(("dedupe", ri), bucket="dedupe-commutes")
            if okd and collections.Counter(parts) != collections.Counter(records(whole)):
                c.violation("dedupe-does-not-commute: dedupe of every shard gives %d lines, dedupe of the whole input %d" % (len(parts), len(records(whole))), rep)
        # codec log of the writer threads: every shard flushed exactly one member per finish
        if comp != "none" and os.path.exists(logp):
            ev = codeclog.parse_log("M case\n" + open(logp).read())
            calls = [x for x in (ev[0] if ev else []) if not isinstance(x, tuple) and x.rc is not None]
            ends = sum(1 for x in calls if x.rc == (1 if x.fn == "deflate" else 4))
            if ends != n:
                c.broken.append("codec log of shard -c %s n=%d: %d members finished" % (comp, n, ends))
            # the hand-off: each shard's bytes reach its codec in pieces of at most kBlockSize, a full
            # block first whenever there is one (the model's `blocks`), and nothing is lost on the way
            per = {}
            for x in calls:
                per.setdefault(x.id, []).append(x)
            totals = sorted(sum(y.used() for y in v) for v in per.values())
            if totals != sorted(len(o) for o in outs):
                c.broken.append("codec log of shard -c %s n=%d: bytes consumed per stream %r != shard sizes %r" % (comp, n, totals[:6], sorted(len(o) for o in outs)[:6]))
            for v in per.values():
                runs_ = [y for y in v if y.flag == 0]
                tot = sum(y.used() for y in v)
                if any(y.ain > BS for y in runs_) or (tot >= BS and not any(y.ain == BS for y in runs_)) or (0 < tot < BS and runs_ and runs_[0].ain != tot):
                    c.violation("writer-hand-off-not-in-blocks: a shard of %d bytes reached the codec in pieces %r" % (tot, [y.ain for y in runs_][:8]), rep)
                    break
            if comp == "gzip":
                dcalls = [x for x in calls if x.fn == "deflate"]
                nhit = sum(1 for a, b in zip(dcalls, dcalls[1:]) if a.id == b.id and 1 <= a.aout2 <= 5 and b.aout == 4096)
                c.cov["distribution"]["codec-log/gzip-write-found-1..5-free-bytes"] = c.cov["distribution"].get("codec-log/gzip-write-found-1..5-free-bytes", 0) + nhit
                if r["kind"] == "gz-partial-drain" and nhit == 0:
                    c.broken.append("the steered gzip input did not produce a partially filled hand-over (codec log shows none)")
            c.cov["distribution"]["codec-log/block-hand-off-checked"] = c.cov["distribution"].get("codec-log/block-hand-off-checked", 0) + len(per)
            for x in calls:
                if x.flag in (4, 2) and x.ain != 0:
                    c.violation("finish-with-undefined-input: %s(FINISH) called with avail_in=%d on a shard writer" % (x.fn, x.ain), rep)
                    break
        # model correspondence: collect (not the megabyte-sized steered gzip input: the extracted list model is
        # quadratic in the lines of one shard; that run is about the validity of the file)
        if r["kind"] not in ("gz-partial-drain", "long-first-line"):
            pending.append((ri, r, data, recs, outs))

    # ------------------------------------------------------------ model vs tool
    if drv and pending:
        # the model's records strip one CR; export the hash of the stripped record
        hl = []
        for ri, r, data, recs, outs in pending:
            for l in recs:
                ls = l[:-1] if (STRIP_CR and l.endswith(b"\r")) else l
                hl.append("H %s %s %s" % (r["spec"], r["delim"].hex(), ls.hex() if ls else "-"))
        rc, hout, herr = run_lines(hx, hl)
        if len(hout) != len(hl):
            c.broken.append("hx_shard died while exporting key hashes: %s" % herr[-200:])
        else:
            mlines, k = [], 0
            for ri, r, data, recs, outs in pending:
                hs = [h.split(" ")[1] for h in hout[k:k + len(recs)]]
                k += len(recs)
                mlines.append("S %d %s %s" % (r["n"], data.hex() if data else "-", ",".join(hs) if hs else "-"))
            rc, mout, merr = codeclog.run_lines_bigstack(drv, mlines, timeout=1800)
            if len(mout) != len(mlines):
                c.broken.append("C06 model driver produced %d lines for %d runs: %s" % (len(mout), len(mlines), merr[-200:]))
            else:
                for (ri, r, data, recs, outs), mo in zip(pending, mout):
                    impl = "OK " + ",".join(o.hex() if o else "-" for o in outs)
                    if mo != impl:
                        c.broken.append("correspondence shard model vs bin/shard: run %d (n=%d %s %s): model=%s impl=%s" % (ri, r["n"], r["spec"], r["kind"], mo[:120], impl[:120]))
                        break
                c.cov["traces_validated_against_impl"] += len(mlines)
    # the same runs with the key hash COMPUTED by the Coq models of RangeFields (C10) and
    # MurmurHash64A (C14) instead of imported from the implementation (inputs up to 20 kB:
    # the extracted Murmur costs ~20 us per byte)
    if drv and pending:
        sel = [x for x in pending if len(x[2]) <= 20000]
        tl = ["T %d %s %s %s" % (r["n"], r["spec"].encode().hex(), r["delim"].hex(), data.hex() if data else "-") for ri, r, data, recs, outs in sel]
        rc, tout, terr = codeclog.run_lines_bigstack(drv, tl, timeout=1800)
        if len(tout) != len(tl):
            c.broken.append("C06 model driver (concrete key) produced %d lines for %d runs: %s" % (len(tout), len(tl), terr[-200:]))
        else:
            for (ri, r, data, recs, outs), mo in zip(sel, tout):
                impl = "OK " + ",".join(o.hex() if o else "-" for o in outs)
                if mo != impl:
                    c.broken.append("correspondence shard model with Fields+Murmur key vs bin/shard: run %d (n=%d -f %s %s): model=%s impl=%s" % (ri, r["n"], r["spec"], r["kind"], mo[:120], impl[:120]))
                    break
            c.cov["traces_validated_against_impl"] += len(tl)
            c.cov["distribution"]["model-with-computed-key-hash"] = len(tl)
    # thorough: naming, option handling and key hashing again through the ASan+UBSan build of the harness
    if c.tier == "thorough":
        hl_asan = []
        for ri, r, data, recs, outs in pending[:40]:
            for l in recs[:200]:
                hl_asan.append("H %s %s %s" % (r["spec"], r["delim"].hex(), l.hex() if l else "-"))
        asan_lines(c, "hx_shard", nlines + alines + hl_asan, what="(ParseArgs, RangeFields, HashCallback)")
    # block sizes handed to the writer: model vs kBlockSize arithmetic
    if drv:
        rc, kout, _ = run_lines(drv, ["K"])
        bs = int(kout[0].split()[1]) if kout and kout[0].startswith("K ") else 8192      # regenerated kBlockSize
        bl = ["B %d" % k for k in (0, 1, bs - 1, bs, bs + 1, 2 * bs, 2 * bs + 3616)]
        rc, bout, _ = run_lines(drv, bl)
        for l, o in zip(bl, bout):
            k = int(l.split()[1])
            want = "OK " + ",".join(str(min(bs, k - i)) for i in range(0, k, bs))
            if o != want:
                c.broken.append("blocks model: %s gives %s expected %s" % (l, o, want))

    shutil.rmtree(work, ignore_errors=True)
    return c.finish(level="proof",
                    rule="bin/shard for n = 1..17 x {none,gzip,bzip2} x naming modes (--prefix/--number, positional, -o) x key specs {1-,1,2,1-2,2-,1,3} x delimiters {tab,space,comma} x input classes (empty, one line, few lines leaving shards empty, ~100 lines with duplicates/empty lines/NUL, ~2000 lines, some with a line longer than the 8192-byte writer block, with and without final newline); naming for n = 1..129 and around powers of ten through the real ParseArgs; reversed-input metamorphic runs; dedupe on shards vs whole. distinct = distinct runs",
                    assumptions=["the key hash is an abstract function of the line in the Coq model (Murmur/field cutting belong to C14/C10); the check compares it with an independent MurmurHash64A over cut-style fields on lines that do not end in the delimiter",
                                 "timings of the per-shard writer threads are covered by C16's queue model; here every run is compared with the sequential model",
                                 "records = FilePiece::ReadLineOrEOF(line, '\\n', false): lines are kept byte for byte (the CR finding is fixed)"])


if __name__ == "__main__":
    sys.exit(main(sys.argv[1:]))
