"""C03 -- partial reads/writes and EINTR never change a tool's output."""
import os
import shutil
import stat
import sys

sys.path.insert(0, os.path.join(os.path.dirname(os.path.abspath(__file__)), "..", "tools"))
sys.path.insert(0, os.path.dirname(os.path.abspath(__file__)))
from checklib import *  # noqa

SCRATCH = os.path.join(BUILD_ROOT, "scratch-C03")
BS_CAP = 8192


def hx(b):
    return b.hex() if b else "-"


def data_pat(n, salt):
    return bytes((i * 7 + salt * 13 + (i >> 8)) % 251 for i in range(n))


def rand_script(rng, n_hint, allow_err=False):
    out = []
    for _ in range(rng.randrange(0, 14)):
        r = rng.random()
        if r < 0.25:
            out.append("E")
        elif r < 0.40:
            out.append("F")
        elif allow_err and r < 0.45:
            out.append("X%d" % rng.choice((5, 28, 32)))
        else:
            out.append("S%d" % rng.choice((1, 1, 2, 3, max(1, n_hint - 1), max(1, n_hint), n_hint + 1, rng.randrange(1, max(2, n_hint + 2)))))
    return ",".join(out) or "-"


def overwrite(file, off, data):
    if not data:
        return file
    b = bytearray(file)
    if len(b) < off:
        b += bytes(off - len(b))
    b[off:off + len(data)] = data
    return bytes(b)


def gen_cases(c):
    rng = c.rng
    cases = []   # (line, meta)

    def add(line, meta, bucket):
        cases.append((line, meta))
        c.count(line, nontrivial=True, bucket=bucket)

    # exhaustive small: every script over {F,S1,S2,E} of length <= 4 for a 4-byte transfer, each loop
    import itertools
    alpha = ("F", "S1", "S2", "E")
    src4 = b"abcd"
    for k in range(0, 5):
        for tup in itertools.product(alpha, repeat=k):
            sc = ",".join(tup) or "-"
            add("RE 4 %s %s" % (hx(src4), sc), ("RE", 4, src4), "exhaustive-len4/ReadOrEOF")
            add("RT 4 %s %s" % (hx(src4), sc), ("RT", 4, src4), "exhaustive-len4/ReadOrThrow")
            add("WT %s %s" % (hx(src4), sc), ("WT", src4), "exhaustive-len4/WriteOrThrow")
            add("EP 4 1 %s %s" % (hx(b"x" + src4 + b"y"), sc), ("EP", 4, 1, b"x" + src4 + b"y"), "exhaustive-len4/ErsatzPRead")
            add("RE 6 %s %s" % (hx(src4), sc), ("RE", 6, src4), "exhaustive-len4/ReadOrEOF-past-end")
    n = 1500 if c.tier == "quick" else 20000
    for _ in range(n):
        ln = rng.choice((0, 1, 2, 5, 17, 64, 300, rng.randrange(0, 2000)))
        src = bytes(rng.randrange(256) for _ in range(ln))
        amount = rng.choice((0, 1, ln, max(ln - 1, 0), ln + 1, ln + 7, rng.randrange(0, ln + 3)))
        err = rng.random() < 0.15
        op = rng.choice(("PR", "RE", "RT", "RC"))
        if op == "RC" and any(src.startswith(m) for m in (b"\x1f\x8b", b"BZh", b"\xfd7zXZ\x00")):
            continue
        add("%s %d %s %s" % (op, amount, hx(src), rand_script(rng, max(amount, 1), err)), (op, amount, src), "random/" + op + ("+err" if err else ""))
        data = bytes(rng.randrange(256) for _ in range(rng.choice((0, 1, 2, 9, 100, 1000, rng.randrange(0, 3000)))))
        err = rng.random() < 0.15
        add("WT %s %s" % (hx(data), rand_script(rng, max(len(data), 1), err)), ("WT", data), "random/WT" + ("+err" if err else ""))
        f = bytes(rng.randrange(256) for _ in range(rng.randrange(0, 200)))
        off = rng.randrange(0, len(f) + 3)
        size = rng.choice((0, 1, max(len(f) - off, 0), max(len(f) - off, 0) + 1, rng.randrange(0, 50)))
        add("EP %d %d %s %s" % (size, off, hx(f), rand_script(rng, max(size, 1))), ("EP", size, off, f), "random/EP")
        d2 = bytes(rng.randrange(256) for _ in range(rng.randrange(0, 60)))
        add("EW %s %d %s %s" % (hx(d2), off, hx(f), rand_script(rng, max(len(d2), 1))), ("EW", d2, off, f), "random/EW")
    nb = 150 if c.tier == "quick" else 2000
    for _ in range(nb):
        lens = [rng.choice((0, 1, 2, 100, BS_CAP - 1, BS_CAP, BS_CAP + 1, 2 * BS_CAP + 3, rng.randrange(0, 3000))) for _ in range(rng.randrange(0, 9))]
        # no hard errors here: an exception in FileStream's destructor flush during unwinding is std::terminate (C11's business)
        add("BS %s %s" % (",".join(map(str, lens)) or "-", rand_script(rng, BS_CAP, False)), ("BS", lens), "random/BufferedStream")
    for _ in range(nb // 2):
        lens = [rng.choice((0, 1, 2, 100, BS_CAP - 1, BS_CAP, BS_CAP + 1, 2 * BS_CAP, 2 * BS_CAP + 3, 5 * BS_CAP + 1, rng.randrange(0, 3000))) for _ in range(rng.randrange(0, 9))]
        add("TB %s %s" % (",".join(map(str, lens)) or "-", rand_script(rng, BS_CAP, False)), ("TB", lens), "random/ThreadedBufferedStream")
    return cases


def parse(o):
    """-> (kind, result bytes|None, trace [(req, ret)], sink bytes|None)"""
    try:
        head, rest = o.split(" trace=", 1)
        tr, sink = rest.split(" sink=", 1)
        trace = [tuple(int(v) for v in p.split(":")) for p in tr.split(",")] if tr else []
        sinkb = None if sink == "-" and False else (b"" if sink == "-" else bytes.fromhex(sink))
        if head.startswith("OK "):
            r = head[3:]
            return "OK", (b"" if r == "-" else bytes.fromhex(r)), trace, sinkb
        return head, None, trace, sinkb
    except Exception:
        return None


def oracle(c, line, meta, o):
    """direct property oracle on what the real functions did (independent of the Coq model)"""
    p = parse(o)
    if p is None:
        c.violation("sysio-harness: unparsable answer %r" % o[:100], {"case": line, "impl": o[:300]})
        return
    kind, res, trace, sink = p
    injected_err = any(r == -2 for _, r in trace)
    op = meta[0]

    def bad(what):
        c.violation("%s: %s" % (op, what), {"case": line, "impl": o[:400], "trace": trace,
                                            "how": "LD_PRELOAD=libvfio.so hx_sysio <<< '%s'" % line[:300]})
    if injected_err:
        if kind == "OK":
            bad("an injected hard error was swallowed (result OK)")
        if op in ("WT", "BS") and sink is not None:
            want = meta[1] if op == "WT" else b"".join(data_pat(n, i) for i, n in enumerate(meta[1]))
            if not want.startswith(sink):
                bad("bytes accepted before the error are not a prefix of the data")
        return
    if op == "PR":
        _, amount, src = meta
        if kind != "OK" or not src.startswith(res) or len(res) > amount or (amount and src and not res):
            bad("PartialRead returned %r for amount %d on %d source bytes" % (res, amount, len(src)))
    elif op in ("RE", "RC"):
        _, amount, src = meta
        if kind != "OK" or res != src[:amount]:
            bad("returned %d bytes, expected the first min(%d, %d) source bytes; first difference at %s" % (
                len(res or b""), amount, len(src), next((i for i, (a, b) in enumerate(zip(res or b"", src)) if a != b), "length")))
    elif op == "RT":
        _, amount, src = meta
        if amount <= len(src):
            if kind != "OK" or res != src[:amount]:
                bad("ReadOrThrow(%d) on %d source bytes gave %s" % (amount, len(src), kind))
        elif kind != "FAIL eof":
            bad("ReadOrThrow past the end did not throw EndOfFileException (%s)" % kind)
    elif op == "WT":
        if kind != "OK" or sink != meta[1]:
            bad("the descriptor received %d bytes, the data has %d; first difference at %s" % (
                len(sink or b""), len(meta[1]), next((i for i, (a, b) in enumerate(zip(sink or b"", meta[1])) if a != b), "length")))
    elif op == "EP":
        _, size, off, f = meta
        if size == 0 or off + size <= len(f):
            if kind != "OK" or res != f[off:off + size]:
                bad("ErsatzPRead(%d at %d) returned wrong bytes" % (size, off))
        elif kind != "FAIL eof":
            bad("ErsatzPRead past the end did not throw EndOfFileException (%s)" % kind)
    elif op == "EW":
        _, d, off, f = meta
        if kind != "OK" or res != overwrite(f, off, d):
            bad("file after ErsatzPWrite differs from the expected contents")
    elif op in ("BS", "TB"):
        want = b"".join(data_pat(n, i) for i, n in enumerate(meta[1]))
        if kind != "OK" or sink != want:
            bad("the stream delivered %d bytes, the writes total %d; first difference at %s" % (
                len(sink or b""), len(want), next((i for i, (a, b) in enumerate(zip(sink or b"", want)) if a != b), "length")))


# ---------------------------------------------------------------- metamorphic runs of the real tools

def run_dribble(argv, data, rng, timeout, env, cwd):
    """feed stdin through a pipe in small fragments: real (kernel) short reads for every reader,
    including the stdio/iostream ones that an LD_PRELOAD interposer cannot reach"""
    import threading
    p = subprocess.Popen(argv, stdin=subprocess.PIPE, stdout=subprocess.PIPE, stderr=subprocess.PIPE, env=env, cwd=cwd)

    def feed():
        try:
            i = 0
            while i < len(data):
                k = rng.choice((1, 2, 3, 7, 64, 500, 4095, 4096, 4097, 9000))
                os.write(p.stdin.fileno(), data[i:i + k])
                i += k
                if rng.random() < 0.3:
                    time.sleep(0.0002)
        except OSError:
            pass
        finally:
            try:
                p.stdin.close()
            except OSError:
                pass
    t = threading.Thread(target=feed)
    t.start()
    try:
        out, err = p.communicate(timeout=timeout) if False else (None, None)
    except Exception:
        pass
    # communicate() would try to write stdin itself: read the two pipes by hand
    outb, errb = [], []
    t2 = threading.Thread(target=lambda: errb.append(p.stderr.read()))
    t2.start()
    try:
        outb.append(p.stdout.read())
        p.wait(timeout=timeout)
        st = p.returncode
    except subprocess.TimeoutExpired:
        p.kill()
        st = "timeout"
    t.join()
    t2.join()
    return st, b"".join(outb), b"".join(errb)


def run_case(case, workdir, env_extra, timeout, dribble=None):
    if os.path.exists(workdir):
        shutil.rmtree(workdir)
    os.makedirs(workdir)
    for name, blob in case.get("files", {}).items():
        p = os.path.join(workdir, name)
        os.makedirs(os.path.dirname(p), exist_ok=True)
        with open(p, "wb") as f:
            f.write(blob)
    env = dict(os.environ)
    env.update(env_extra)
    if dribble is not None:
        st, out, err = run_dribble(case["argv"], case.get("stdin", b""), dribble, timeout, env, workdir)
    else:
        st, out, err = run_tool(case["argv"], stdin=case.get("stdin", b""), timeout=timeout, env=env, cwd=workdir)
    files = {}
    for name in case.get("outputs", []):
        p = os.path.join(workdir, name)
        try:
            with open(p, "rb") as f:
                files[name] = f.read()
        except OSError:
            files[name] = None
    return st, out, files, err


def metamorphic(c, vfio):
    try:
        import c03_tools
    except Exception as e:  # noqa
        c.broken.append("checks/c03_tools.py (tool catalogue) not importable: %s" % e)
        return
    import random
    work0 = os.path.join(SCRATCH, "w")
    os.makedirs(work0, exist_ok=True)
    cases = c03_tools.tool_cases(os.path.join(build_dir(), "repo", "bin"), work0, random.Random(c.seed), c.tier)
    nsched = 12 if c.tier == "quick" else 60
    tools_seen = set()
    # compressed stdin (exercises ReadStream::ReadInput's refill loop and the member chaining under
    # short reads): for every stdin-reading invocation whose clean output on gzip/bzip2/xz/two-member
    # input equals its clean output on the plain input, the compressed variants join the catalogue
    import bz2, gzip, lzma
    extra = []
    seen_tool = set()
    for case in cases:
        data = case.get("stdin", b"")
        if not data or case["tool"] in seen_tool or len(data) < 64:
            continue
        st0, out0, files0, _ = run_case(case, work0, {}, 60)
        half = len(data) // 2
        for name, blob in (("gz", gzip.compress(data, 1)), ("bz2", bz2.compress(data, 1)), ("xz", lzma.compress(data, preset=0)),
                           ("gz+xz", gzip.compress(data[:half], 1) + lzma.compress(data[half:], preset=0))):
            v = dict(case)
            v["stdin"] = blob
            v["note"] = "stdin compressed as " + name
            v["variant"] = name
            st1, out1, files1, _ = run_case(v, work0, {}, 60)
            if st1 == 0 and st0 == 0 and out1 == out0 and files1 == files0:
                extra.append(v)
                seen_tool.add(case["tool"])
    # input FILES handed over as a pipe (/dev/stdin): FilePiece(name) then runs in read() mode, so that the
    # number / word readers (ReadULong & co., ReadDelimited, ReadWordSameLine: alignments, models) see short reads;
    # alignment indices are also zero-padded to 4 digits so that one number spans three or more 1-byte reads
    import re as _re
    piped = []
    for case in cases:
        if case.get("stdin") or not case.get("files"):
            continue
        st0, out0, files0, _ = run_case(case, work0, {}, 60)
        if st0 != 0:
            continue
        for name, blob in sorted(case["files"].items()):
            path = os.path.join(work0, name)
            if path not in case["argv"]:
                continue
            for pad in (False, True):
                content = blob
                if pad:
                    if b"|||" not in blob:
                        continue
                    content = _re.sub(rb"(?<![\w.])(\d{1,3})(?![\w.])", lambda m: b"%04d" % int(m.group(1)), blob)
                v = dict(case)
                v["argv"] = ["/dev/stdin" if a == path else a for a in case["argv"]]
                v["stdin"] = content
                v["variant"] = "%s-as-pipe%s" % (name.split("_", 1)[-1], "-padded" if pad else "")
                v["note"] = "input file %s handed over as /dev/stdin (pipe)%s" % (name, ", numbers zero-padded" if pad else "")
                st1, out1, files1, _ = run_case(v, work0, {}, 60)
                if st1 == 0 and out1 == out0 and files1 == files0:
                    piped.append(v)
    cases = cases + extra + piped
    c.cov["metamorphic_compressed_stdin_variants"] = len(extra)
    c.cov["metamorphic_file_as_pipe_variants"] = len(piped)
    for ci, case in enumerate(cases):
        tool = case["tool"]
        tools_seen.add(tool)
        st0, out0, files0, err0 = run_case(case, work0, {}, 60)
        if st0 == "timeout":
            c.violation("tool-hangs-clean: %s timed out without any injection" % tool, {"tool": tool, "argv": case["argv"][1:]})
            continue
        injected_total = 0
        for k in list(range(nsched)) + ["cap1", "cap2", "cap3"]:
            if isinstance(k, str):
                # every read of the process returns at most 1 / 2 bytes (numbers and words arrive in many pieces:
                # ReadNumber / ReadDelimited / ReadWordSameLine refill loops); cap3: reads and writes at most 3 bytes
                seed = c.seed * 1000003 + ci * 101
                env = {"LD_PRELOAD": vfio, "VFIO_CAP": k[3:], "VFIO_OPS": "rp" if k != "cap3" else "rwp",
                       "VFIO_PSHORT": "cap=" + k[3:], "VFIO_PEINTR": "0"}
                k = nsched + int(k[3:])
            else:
                seed = c.seed * 1000003 + ci * 101 + k
                mode = k % 3
                env = {"LD_PRELOAD": vfio, "VFIO_SEED": str(seed),
                       "VFIO_PSHORT": ("500", "150", "0")[mode], "VFIO_PEINTR": ("100", "300", "400")[mode],
                       "VFIO_LOG": os.path.join(SCRATCH, "vfio.log")}
            try:
                os.unlink(env.get("VFIO_LOG", os.path.join(SCRATCH, "vfio.log")))
            except OSError:
                pass
            # every fourth schedule: no interposer, stdin dribbled through a pipe in small fragments
            dribble = random.Random(seed) if (k < nsched and k % 4 == 3 and case.get("stdin")) else None
            if dribble is not None:
                env = {"VFIO_PSHORT": "dribble", "VFIO_PEINTR": "-", "VFIO_LOG": env["VFIO_LOG"]}
            st, out, files, err = run_case(case, work0, env, 120, dribble)
            inj = 1 if (dribble is not None or "VFIO_CAP" in env) else 0
            try:
                with open(env.get("VFIO_LOG", "/nonexistent")) as f:
                    for l in f:
                        t = l.split()
                        if len(t) == 4 and (t[3] == "-1" or (t[3].isdigit() and int(t[3]) < int(t[2]))):
                            inj += 1
            except OSError:
                pass
            injected_total += inj
            c.count(("meta", tool, ci, k), nontrivial=inj > 0, bucket="metamorphic/%s%s/%s" % (tool, ("[" + case["variant"] + "]") if case.get("variant") else "", "stdin-dribbled" if dribble is not None else ("injected" if inj else "no-interposable-call")))
            diffs = []
            if st != st0:
                diffs.append("exit status %s vs %s" % (st, st0))
            if out != out0:
                diffs.append("stdout differs (%d vs %d bytes, first difference at byte %s)" % (
                    len(out), len(out0), next((i for i, (a, b) in enumerate(zip(out, out0)) if a != b), min(len(out), len(out0)))))
            for name in files0:
                if files.get(name) != files0[name]:
                    diffs.append("output file %s differs" % name)
            if diffs:
                c.violation("metamorphic: %s %s under short/EINTR schedule seed=%d pshort=%s peintr=%s: %s | stderr: %s" % (
                    tool, " ".join(case["argv"][1:])[:120], seed, env["VFIO_PSHORT"], env["VFIO_PEINTR"], "; ".join(diffs), err[-200:].decode("latin1")),
                    {"tool": tool, "argv": case["argv"][1:], "env": {k2: v for k2, v in env.items() if k2.startswith("VFIO") and k2 != "VFIO_LOG"},
                     "stdin_len": len(case.get("stdin", b"")), "stdin_hex": case.get("stdin", b"").hex() if len(case.get("stdin", b"")) <= 200000 else None,
                     "note": case.get("note"), "diffs": diffs,
                     "how": "LD_PRELOAD=libvfio.so %s %s < stdin" % (" ".join("%s=%s" % (k2, v) for k2, v in sorted(env.items()) if k2.startswith("VFIO") and k2 != "VFIO_LOG"), tool)})
                break
        c.cov["traces_validated_against_impl"] += nsched
        c.cov.setdefault("metamorphic_injected_events", {})
        c.cov["metamorphic_injected_events"][tool] = c.cov["metamorphic_injected_events"].get(tool, 0) + injected_total
    c.cov["metamorphic_tools"] = sorted(tools_seen)
    # buffers that end up 1..15 bytes short of full: every large read returns exactly n-k bytes, on inputs larger
    # than FilePiece's default window (1 MiB + one page) so that the window has to be compacted / grown there
    rng = random.Random(c.seed + 17)
    words = [("w%x" % rng.getrandbits(rng.choice((8, 24, 60)))).encode() for _ in range(500)]
    big = bytearray()
    while len(big) < 2600000:
        big += b" ".join(rng.choice(words) for _ in range(rng.randrange(1, 40))) + (b"\r\n" if rng.random() < 0.1 else b"\n")
    big += b"x" * 1200000 + b"\nlast line without newline"
    big = bytes(big)
    bindir = os.path.join(build_dir(), "repo", "bin")
    for tool, argv in (("remove_long_lines", ["1000000000"]), ("dedupe", []), ("vocab", [])):
        case = {"tool": tool, "argv": [os.path.join(bindir, tool)] + argv, "stdin": big}
        st0, out0, files0, err0 = run_case(case, work0, {}, 60)
        for kk in ((1, 3, 8, 15) if c.tier == "quick" else range(1, 16)):
            env = {"LD_PRELOAD": vfio, "VFIO_MINUS": str(kk), "VFIO_OPS": "r"}
            st, out, files, err = run_case(case, work0, env, 60)
            c.count(("minus", tool, kk), nontrivial=True, bucket="metamorphic/%s/large-reads-return-n-minus-k" % tool)
            if st != st0 or out != out0:
                c.violation("metamorphic: %s on %d bytes of stdin when every large read returns n-%d bytes: status %s vs %s, stdout %d vs %d bytes, first difference at byte %s | stderr: %s" % (
                    tool, len(big), kk, st, st0, len(out), len(out0), next((i for i, (a, b) in enumerate(zip(out, out0)) if a != b), min(len(out), len(out0))), err[-200:].decode("latin1")),
                    {"tool": tool, "argv": argv, "env": {"VFIO_MINUS": str(kk), "VFIO_OPS": "r"}, "stdin_len": len(big),
                     "stdin_how": "random.Random(seed+17): ~2.6 MB of word lines + one 1.2 MB line + an unterminated tail (see checks/C03.py metamorphic())",
                     "how": "LD_PRELOAD=libvfio.so VFIO_MINUS=%d VFIO_OPS=r %s < stdin" % (kk, tool)})
                break


def main(argv):
    c = Check("C03", argv)
    os.makedirs(SCRATCH, exist_ok=True)
    try:
        ok, blog = build_repo(["all"])
        if not ok:
            c.broken.append("build of the repo working tree failed: " + blog[-800:])
            return c.finish(rule="build failed")
        c.proofs()
        # only the translator this property's theories depend on (Gen/Src_filepiece.v) is part of its tie
        c.broken = [b for b in c.broken if not (b.startswith("translator(") and not b.startswith("translator(filepiece)"))]
        if c.tier == "thorough":
            coqchk(c)
        drv, dlog = build_driver("C03")
        vfio = os.path.join(build_dir(), "hx", "libvfio.so")
        wrapper = os.path.join(SCRATCH, "hx_sysio_vfio.sh")
        with open(wrapper, "w") as f:
            f.write("#!/bin/sh\nLD_PRELOAD=%s exec %s\n" % (vfio, hx_bin("hx_sysio")))
        os.chmod(wrapper, os.stat(wrapper).st_mode | stat.S_IXUSR)
        cases = gen_cases(c)
        lines = [l for l, _ in cases]
        for i in (3, len(lines) // 2, len(lines) - 1):
            c.sample({"case": lines[i][:200]})
        # (a) the real loops under libvfio vs the model under the same oracle: results, per-syscall trace, sink
        if drv is None:
            c.broken.append("extraction/driver build failed: " + dlog[-600:])
        else:
            correspond(c, "transfer loops: model vs util/file.cc under libvfio", drv, wrapper, lines, chunk=50000)
        out, deaths = run_lines_resilient(wrapper, lines, timeout=900)
        for idx, rc, err in deaths:
            c.violation("harness-died: the real loop crashed or hung (rc %s) on case %r: %s" % (rc, lines[idx][:200], err[-300:]),
                        {"case": lines[idx], "rc": rc, "how": "LD_PRELOAD=libvfio.so hx_sysio <<< '%s'" % lines[idx][:300]})
        for (line, meta), o in zip(cases, out):
            if o is not None:
                oracle(c, line, meta, o)
        # (b) metamorphic: every tool, clean vs seeded short/EINTR schedules on all its descriptors
        metamorphic(c, vfio)
    finally:
        shutil.rmtree(SCRATCH, ignore_errors=True)
    return c.finish(level="proof",
                    rule="(a) PartialRead/ReadOrEOF/ReadOrThrow/WriteOrThrow/ErsatzPRead/ErsatzPWrite/FileStream/ReadCompressed::ReadOrEOF under libvfio: every outcome script over {Full,Short1,Short2,EINTR} of length <= 4 on a 4-byte transfer, random transfers of 0-3000 bytes under random scripts (some with an injected hard error), FileStream write sequences around the 8192-byte buffer; compared with the extracted model per syscall (requested, returned), result and bytes accepted, and with a direct oracle. (b) all 24 executables: clean run vs seeded short/EINTR schedules (three mixes) on every read/write/pread/pwrite/readv/writev of the process; stdout, output files and exit status must be byte-identical. distinct = distinct cases/schedules in which something was actually injected",
                    assumptions=["OS oracle: every non-EINTR, non-error call transfers between 1 and the requested number of bytes (reads: 0 only at end of input)",
                                 "libvfio interposes the libc entry points read/write/pread/pwrite/readv/writev (PLT calls); stdio-internal and libstdc++ stdio_sync (std::cin/std::cout in sync_with_stdio mode) transfers are made by libc-internal calls that cannot be interposed: tools doing all their I/O that way are exercised only as far as buckets 'injected' show",
                                 "hard errors (Err) are property C11; here only: they are not swallowed and the accepted bytes are a prefix"])


if __name__ == "__main__":
    sys.exit(main(sys.argv[1:]))
