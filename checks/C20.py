"""C20 -- no out-of-bounds / garbage / hang on arbitrary input; number formatters never overrun.
(claimed partial: the formatter / stream part is proved for all values; the 24 executables on
arbitrary streams are *sampled* under ASan+UBSan+libstdc++ assertions)"""
import os
import re
import struct
import subprocess
import sys
from concurrent.futures import ThreadPoolExecutor

sys.path.insert(0, os.path.join(os.path.dirname(os.path.abspath(__file__)), "..", "tools"))
from checklib import *  # noqa
import toolruns as tr

SCRATCH = os.path.join(BUILD_ROOT, "scratch-C20")
WORKERS = 8
SAN = "hard"
TOOL_TIMEOUT = 30
FILE_BACKED = {"edge-block", "edge-block-plus1", "empty", "newline", "no-final-newline", "nul-in-line", "crlf", "bad-utf8-word", "long-line", "page-exact", "page-exact-no-nl",
               "two-pages-no-nl", "gz-valid", "gz-truncated-8", "bz2-corrupt-mid", "xz-valid", "b64-empty-doc", "warc-ok", "warc-trunc-body"}
SAN_ENV = {"ASAN_OPTIONS": "detect_leaks=0:allocator_may_return_null=1:abort_on_error=0", "UBSAN_OPTIONS": "print_stacktrace=0"}
CRASH_SIGNALS = {4: "SIGILL", 7: "SIGBUS", 8: "SIGFPE", 11: "SIGSEGV"}


# ---------------------------------------------------------------------------
# part 1: formatters and the in-place stream protocol

INT_TYPES = {"U16": (0, 2**16 - 1), "I16": (-2**15, 2**15 - 1), "U32": (0, 2**32 - 1), "I32": (-2**31, 2**31 - 1),
             "U64": (0, 2**64 - 1), "I64": (-2**63, 2**63 - 1)}


def int_cases(c):
    rng = c.rng
    out = []
    for ty, (lo, hi) in INT_TYPES.items():
        vals = {lo, hi, 0, 1, lo + 1, hi - 1}
        for e in range(0, 20):
            for d in (-1, 0, 1):
                for sgn in (1, -1):
                    vals.add(sgn * (10 ** e + d))
                    vals.add(sgn * (10 ** e * 9 + d))
        for k in (9999, 10000, 99999, 100000, 99999999, 100000000, 999999999, 1000000000, 4294967295, 4294967296,
                  9999999999999999, 10000000000000000, 99999999999999999, 1000000000000000000, 9223372036854775807, 9223372036854775808,
                  18446744073709551615, 1844 * 10**16, 1000 * 10**16 - 1, 10**16 * 10, 10**16 * 100 - 1):
            vals.update({k, -k, k - 1, k + 1})
        n = 300 if c.tier == "quick" else 5000
        for _ in range(n):
            bits = rng.randrange(1, 65)
            vals.add(rng.randrange(0, 2 ** bits))
            vals.add(-rng.randrange(0, 2 ** bits))
        for v in sorted(vals):
            if lo <= v <= hi:
                out.append((ty, v))
    for p in [0, 1, 15, 16, 255, 4096, 2**32 - 1, 2**32, 2**47, 2**63, 2**64 - 1] + [rng.randrange(2**64) >> rng.randrange(64) for _ in range(60)]:
        out.append(("P", p))
    out += [("B", 0), ("B", 1)]
    return out


def double_bits_cases(c):
    rng = c.rng
    vals = [0.0, -0.0, 1.0, -1.0, 0.1, 1e-5, 1.2345678901234567e-5, -1.2345678901234567e-6, 1e-6, 9.999999999999999e-7, 1e-7, -1e-7,
            1e20, 1e21, 1.2345678901234567e20, 123456789012345680000.0, -123456789012345680000.0, 9.999999999999999e20, 1e22,
            5e-324, -5e-324, 2.2250738585072014e-308, 1.7976931348623157e308, -1.7976931348623157e308, float("inf"), float("-inf"), float("nan"),
            0.4054651081081645, 1.0986122886681098, 0.000999500333083423, 9.999995000003334e-07, -0.000001234567890123456, 1e100, 1.5e-100, 123456.789]
    bits = [struct.unpack("<Q", struct.pack("<d", v))[0] for v in vals]
    n = 400 if c.tier == "quick" else 20000
    for _ in range(n):
        r = rng.random()
        if r < 0.4:
            bits.append(rng.getrandbits(64))
        elif r < 0.8:   # exponents around the decimal/exponential switch, full mantissa
            e = rng.choice(range(1023 - 24, 1023 - 16)) if rng.random() < 0.5 else rng.choice(range(1023 + 60, 1023 + 74))
            bits.append((rng.getrandbits(1) << 63) | (e << 52) | rng.getrandbits(52))
        else:
            v = rng.choice([1, -1]) * rng.randrange(1, 10**17) * 10.0 ** rng.randrange(-30, 10)
            bits.append(struct.unpack("<Q", struct.pack("<d", v))[0])
    fbits = [struct.unpack("<I", struct.pack("<f", v))[0] for v in (0.0, -0.0, 1.0, 1e20, -1e20, 9.9999998e20, 1e21, 1e-5, 1.17549435e-38, 1e-45, 3.4028235e38, -3.4028235e38, 0.1, 1e-6, -1.2345678e-6, float("inf"), float("nan"))]
    for _ in range(n // 2):
        fbits.append(rng.getrandbits(32))
    return bits, fbits


def stream_cases(c, decomp):
    """op sequences that put a number at every distance 0..40 from the end of the 8 KiB buffer"""
    rng = c.rng
    nums = ["u64:18446744073709551615", "u64:1234567890123", "i64:-9223372036854775808", "u32:4294967295", "i32:-2147483648", "u64:7"]
    dnums = []
    for bits, d in list(decomp.items())[:400]:
        if len(d.split()) == 3 and len(d.split()[1]) >= 15:
            dnums.append("d:%016x:%s" % (bits, d.replace(" ", ",")))
    dnums = dnums[:12] if c.tier == "quick" else dnums[:60]
    lines = []
    for num in nums + dnums:
        for dist in range(0, 41):
            lines.append("ST w:%d %s p" % (8192 - dist, num))
    for _ in range(40 if c.tier == "quick" else 400):
        ops = []
        for _ in range(rng.randrange(1, 12)):
            r = rng.random()
            if r < 0.4:
                ops.append("w:%d" % rng.choice([0, 1, 100, 8000, 8191, 8192, 8193, 20000, rng.randrange(0, 9000)]))
            elif r < 0.5:
                ops.append("p")
            elif r < 0.55:
                ops.append("fl")
            else:
                ops.append(rng.choice(nums + dnums))
        lines.append("ST " + " ".join(ops))
    # the same scenarios on ThreadedBufferedStream (no flush there)
    ts = ["TS" + l[2:] for l in lines if " fl" not in l] + ["TS", "TS w:8192", "TS w:16384", "TS w:8192 p", "TS p"]
    # util::StringStream: numbers after strings of every small length (std::string growth boundaries: 15/16, 30/31 ...)
    ss = ["SS w:%d %s p" % (n, num) for num in nums + dnums for n in list(range(0, 34)) + [62, 63, 64, 127, 128]]
    return lines + ts + ss


def expected_stream_bytes(ops, dtext):
    """the bytes a sequence of stream operations produces (independent of the model)"""
    out = bytearray()
    for o in ops:
        if o.startswith("w:"):
            out += b"x" * int(o[2:])
        elif o == "p":
            out += b"c"
        elif o == "fl":
            pass
        elif o[:4] in ("u64:", "i64:", "u32:", "i32:"):
            out += str(int(o[4:])).encode()
        elif o[:2] in ("d:", "f:"):
            t = dtext.get((o[0], o.split(":")[1]))
            if t is None:
                return None
            out += t.encode("latin1")
        else:
            return None
    return bytes(out)


def stream_checksum(data):
    a, b = 1, 0
    for ch in data:
        a = (a + ch) % 65521
        b = (b + a) % 65521
    return b * 65536 + a


def expected_stream_length(ops, dtext):
    """total number of bytes a sequence of stream operations produces (independent of the model:
    integers by Python's str, doubles by the text the real ToString returned for the same bits)"""
    n = 0
    for o in ops:
        if o.startswith("w:"):
            n += int(o[2:])
        elif o == "p":
            n += 1
        elif o == "fl":
            pass
        elif o[:4] in ("u64:", "i64:", "u32:", "i32:"):
            n += len(str(int(o[4:])))
        elif o[:2] in ("d:", "f:"):
            t = dtext.get((o[0], o.split(":")[1]))
            if t is None:
                return None
            n += len(t)
        else:
            return None
    return n


def run_until_death(exe, lines, env=None):
    """Run protocol lines; if the harness dies, the line after the last answered one is the culprit."""
    rc, out, err = run_lines(exe, lines, env=env)
    if len(out) == len(lines):
        return out, None
    k = len(out)
    return out, (lines[k] if k < len(lines) else "?", rc, err[:2500] + "\n...\n" + err[-800:])


def part_formatters(c, drv, kconst):
    impl = hx_bin("hx_tostring")
    impl_san = hx_bin("hx_tostring", SAN)
    lines = ["K"]
    ints = int_cases(c)
    lines += ["%s %d" % tv for tv in ints]
    dbits, fbits = double_bits_cases(c)
    # pass 1: what does the digit generator deliver (environment of the layout model)?
    rc, dd, err = run_lines(impl, ["DD %016x" % b for b in dbits] + ["FD %08x" % b for b in fbits])
    if len(dd) != len(dbits) + len(fbits):
        c.broken.append("hx_tostring died while decomposing doubles: %s" % err[-300:])
        return
    decomp = {}
    dl = []
    for b, d in zip(dbits, dd[:len(dbits)]):
        decomp[b] = d
        dl.append("DL D %s %016x" % (d, b))
    for b, d in zip(fbits, dd[len(dbits):]):
        dl.append("DL F %s %08x" % (d, b))
    lines += dl
    # assumptions of C20_double_fits_partial / C20_float_fits_partial, tested on every delivered decomposition
    for l in dl:
        p = l.split()
        if len(p) == 6:
            digits, dp, mx = p[3], int(p[4]), (17, -323, 309) if p[1] == "D" else (9, -44, 39)
            if not (1 <= len(digits) <= mx[0] and digits.isdigit() and mx[1] <= dp <= mx[2]):
                c.broken.append("assumption on the digit generator violated: %s" % l)
    st = stream_cases(c, decomp)
    lines += st
    if drv:
        correspond(c, "ToStringDefs (formatters, footprints, stream chunks) vs util/integer_to_string.cc, float_to_string.cc, buffered_stream.hh via hx_tostring", drv, impl, lines)
    out, death = run_until_death(impl, lines)
    if death:
        c.violation("formatter-harness-crash: hx_tostring died on %s" % death[0][:200], {"harness": "hx_tostring", "case": death[0][:500], "stderr": death[2]})
        return
    km = re.findall(r"(\w+)=(\d+)", out[0])
    k = {a: int(b) for a, b in km}
    kconst.update(k)
    tymap = {"U16": "u16", "I16": "i16", "U32": "u32", "I32": "i32", "U64": "u64", "I64": "i64", "P": "ptr", "B": "bool"}
    dtext = {}
    for l, o in zip(lines[1:], out[1:]):
        p = l.split()
        if p[0] == "DL" and o.startswith("OK"):
            dtext[("d" if p[1] == "D" else "f", p[-1])] = bytes.fromhex(o.split()[1]).decode("latin1")
    # direct oracle on the real code: text is the decimal numeral, footprint within the compiled reservation
    for l, o in zip(lines[1:], out[1:]):
        p = l.split()
        op = o.split()
        if p[0] in tymap:
            v = int(p[1])
            text, foot = bytes.fromhex(op[1]).decode("latin1"), int(op[2])
            want = str(v) if p[0] not in ("P",) else ("0x%x" % v)
            c.count(l, bucket="format/%s/%d-chars" % (p[0], len(text)))
            if text != want:
                c.violation("formatter-wrong-text: ToString(%s %d) = %r, expected %r" % (p[0], v, text, want), {"harness": "hx_tostring", "case": l, "impl": o})
            if foot > k[tymap[p[0]]] or len(text) > foot:
                c.violation("formatter-overrun: ToString(%s %d) stores %d bytes, ToStringBuf reserves %d" % (p[0], v, foot, k[tymap[p[0]]]),
                            {"harness": "hx_tostring", "case": l, "impl": o, "reserved": k[tymap[p[0]]]})
        elif p[0] == "DL":
            text, foot = bytes.fromhex(op[1]).decode("latin1"), int(op[2])
            res = k["double" if p[1] == "D" else "float"]
            c.count(l, bucket="format/%s/%s" % ("double" if p[1] == "D" else "float", "exp" if "e" in text else ("special" if text[-1:] in "fN" else "decimal")))
            if foot > res:
                c.violation("formatter-overrun: ToString(%s bits %s) = %r stores %d bytes (text + terminator), ToStringBuf reserves %d" % (
                    "double" if p[1] == "D" else "float", p[-1], text, foot, res), {"harness": "hx_tostring", "case": l, "impl": o, "reserved": res})
            # round trip: the text denotes the same value
            try:
                if p[1] == "D":
                    val = struct.unpack("<d", struct.pack("<Q", int(p[-1], 16)))[0]
                    back = float(text.replace("inf", "inf").replace("NaN", "nan"))
                    same = (val != val and back != back) or struct.pack("<d", back) == struct.pack("<d", val)
                else:
                    val = struct.unpack("<f", struct.pack("<I", int(p[-1], 16)))[0]
                    back = struct.unpack("<f", struct.pack("<f", float(text.replace("NaN", "nan"))))[0]
                    same = (val != val and back != back) or struct.pack("<f", back) == struct.pack("<f", val)
            except (ValueError, OverflowError):
                same = False
            if not same:
                c.violation("formatter-wrong-text: ToString(%s bits %s) = %r does not denote the value" % (p[1], p[-1], text), {"harness": "hx_tostring", "case": l, "impl": o})
        elif p[0] == "SS":
            c.count(l, bucket="string-stream")
            wb = expected_stream_bytes(p[1:], dtext)
            if wb is not None and len(wb) <= 70000 and op[-1] != "sum=%d" % stream_checksum(wb):
                c.violation("string-stream-content: util::StringStream does not hold the bytes of the operations %s (checksum %s, expected sum=%d)" % (" ".join(p[1:])[:120], op[-1], stream_checksum(wb)),
                            {"harness": "hx_tostring", "case": l[:600], "impl": o[:300], "expected_tail_hex": wb[-40:].hex()})
            want = expected_stream_length(p[1:], dtext)
            if want is not None and int(op[1]) != want:
                c.violation("string-stream-content: util::StringStream holds %s bytes after %s, the operations produce %d" % (op[1], " ".join(p[1:])[:120], want),
                            {"harness": "hx_tostring", "case": l[:600], "impl": o[:300], "expected_length": want})
        elif p[0] in ("ST", "TS"):
            c.count(l, bucket=("stream/" if p[0] == "ST" else "threaded-stream/") + ("edge" if len(p) == 4 else "random"))
            sizes = [int(x) for x in op[1:-1]]
            wb = expected_stream_bytes(p[1:], dtext)
            if wb is not None and len(wb) <= 70000 and op[-1] != "sum=%d" % stream_checksum(wb):
                c.violation("stream-content: %s did not write the bytes of the operations %s (checksum %s, expected sum=%d)" % (
                    "util::FileStream" if p[0] == "ST" else "util::ThreadedBufferedStream", " ".join(p[1:])[:120], op[-1], stream_checksum(wb)),
                    {"harness": "hx_tostring", "case": l[:600], "impl": o[:300], "expected_tail_hex": wb[-40:].hex()})
            want = expected_stream_length(p[1:], dtext)
            if want is not None and sum(sizes) != want:
                c.violation("stream-content: %s wrote %d bytes in total after %s, the operations produce %d" % (
                    "util::FileStream" if p[0] == "ST" else "util::ThreadedBufferedStream", sum(sizes), " ".join(p[1:])[:120], want),
                    {"harness": "hx_tostring", "case": l[:600], "impl": o[:300], "expected_length": want})
            if p[0] == "TS" and (0 in sizes or any(x > k["block"] for x in sizes)):
                c.violation("threaded-stream-block: ThreadedBufferedStream handed blocks of sizes %s to its writer (0 = poison, max %d)" % (sizes[:8], k["block"]),
                            {"harness": "hx_tostring", "case": l[:600], "impl": o[:300]})
    # the dispatch glue (FakeOStream::operator<< / Coerce): every fundamental type at its extremes through a real stream
    rc, dout, derr = run_lines(impl, ["DISPATCH"])
    want = ("short=-32768,32767 ushort=0,65535 int=-2147483648,2147483647 uint=0,4294967295 "
            "long=-9223372036854775808,9223372036854775807 ulong=0,18446744073709551615 "
            "llong=-9223372036854775808,9223372036854775807 ullong=0,18446744073709551615 size_t=0,18446744073709551615 "
            "int16=-32768,32767 uint16=0,65535 int32=-2147483648,2147483647 uint32=0,4294967295 "
            "int64=-9223372036854775808,9223372036854775807 uint64=0,18446744073709551615 "
            "ptrdiff=-9223372036854775808,9223372036854775807 bool=0,1 char=A,B,C enum=-7,12 cstr=lit,str,piece "
            "ptr=0x0,0xdeadbeef dbl=0.5,-1e300,1,-2.5e-7")
    c.count("DISPATCH", bucket="format/dispatch")
    if not dout or dout[0] != want:
        c.violation("formatter-dispatch: streaming the extremes of every fundamental type gives %r, expected %r" % ((dout or ["<harness died>"])[0][:400], want[:400]),
                    {"harness": "hx_tostring", "case": "DISPATCH", "impl": (dout or [""])[0], "expected": want})
    c.sample({"formatter_case": dl[5], "impl": out[1 + len(ints) + 5]})
    c.sample({"stream_case": st[3][:200], "impl": out[1 + len(ints) + len(dl) + 3]})
    # the same cases with exact-size heap destinations under ASan: any store beyond the reservation is reported
    env = dict(os.environ, HX_EXACT="1", **SAN_ENV)
    out2, death = run_until_death(impl_san, lines, env=env)
    c.cov["traces_validated_against_impl"] += len(out2)
    if death:
        first = [x for x in death[2].split("\n") if "ERROR" in x or "runtime error" in x or "Assertion" in x]
        c.violation("sanitizer-report(library): %s on %s" % ((first or ["harness died rc=%s" % death[1]])[0][:200], death[0][:120]),
                    {"harness": "hx_tostring (ASan, exact-size destination)", "case": death[0][:600], "stderr": death[2][:2500]})


# ---------------------------------------------------------------------------
# part 2: all executables on malformed streams and option values (sampling)

def generic_streams(rng, tier):
    big = 1 << 20
    s = [
        ("empty", b""), ("newline", b"\n"), ("newlines", b"\n\n\n"), ("nul", b"\x00"), ("nul-in-line", b"a\x00b\n\x00\n"),
        ("no-final-newline", b"abc"), ("crlf", b"a\r\nb\r\n\r\n"), ("cr-only", b"\r"), ("spaces", b" \t \n\t\n"),
        ("bad-utf8-ff", b"\xff\xfe\xfd\n"), ("bad-utf8-trunc", b"abc \xc3\n\xe2\x82\n\xf0\x9f\x98\n"), ("surrogate", b"\xed\xa0\x80 x\n"),
        ("beyond-max", b"\xf4\x90\x80\x80\n"), ("overlong", b"\xc0\xaf \xe0\x80\xaf\n"), ("lone-trail", b"\x80\xbf\n"),
        ("bad-utf8-word", b"Hello \xff\xfe world .\nthe \xc3 end\n"),
        ("tabs", b"\t\t\t\n\t\n"), ("few-fields", b"a\tb\n"), ("many-fields", b"a\tb\tc\td\te\tf\tg\th\n" * 3),
        ("long-line", b"a" * big + b"\n"), ("long-no-newline", b"b" * big), ("long-utf8", "é".encode() * (big // 2) + b"\n"),
        ("many-empty", b"\n" * 100000), ("long-spaces", b" " * 300000 + b"\n"),
        # lines that end exactly at / one byte around util::FilePiece's read size (1052672) and twice that
        ("edge-block-minus1", b"x" * 1052670 + b"\n" + b"tail\n"), ("edge-block", b"x" * 1052671 + b"\n" + b"tail\n"),
        ("edge-block-plus1", b"x" * 1052672 + b"\n" + b"tail\n"), ("edge-2blocks", b"y" * (2 * 1052672 - 1) + b"\n"),
        ("edge-block-cr", b"x" * 1052670 + b"\r\n" + b"tail"), ("edge-block-many", (b"z" * 1023 + b"\n") * 1028),
        ("astral", "a😀b 𝔘𝔫𝔦 \U0010ffff\n".encode()), ("bom", b"\xef\xbb\xbfabc\n"),
        ("gzip-magic-garbage", b"\x1f\x8b\x08\x00garbage-not-gzip\n"), ("bz-magic-garbage", b"BZh9garbage\n"), ("xz-magic-garbage", b"\xfd7zXZ\x00garbage\n"),
        ("gzip-truncated", bytes.fromhex("1f8b0800000000000003")),
    ]
    s += [("gigaword-empty-line", b"<P>\n\n</P>\n"), ("gigaword-unclosed", b"<TEXT>\nunclosed text\nmore"), ("gigaword-angle", b"<P>\n<\n>\n<>\n< >\n</P>\n"),
          ("gigaword-entities", b"<P>\n&amp; &lt;x&gt; &quot; &apos &amp\n(BEGIN BRACKET) x (END BRACKET) (unknown) (\n)\n</P>\n"),
          ("gigaword-sections", b"<HEADLINE>\nabc-\ndef\n</HEADLINE>\n<DATELINE>\n</DATELINE>\n<TEXT>\n<P>\nx\n</TEXT>\n"),
          ("page-exact", b"a" * 4095 + b"\n"), ("page-exact-no-nl", b"a" * 4096), ("two-pages-no-nl", b"ab\n" + b"c" * 8189),
          ("giza-like", tr.GIZA * 2), ("tab-numbers", b"1\t2\t3\t4\t5\t6\n" * 5)]
    s += compressed_streams()
    for i in range(3 if tier == "quick" else 30):
        s.append(("random-%d" % i, bytes(rng.randrange(256) for _ in range(rng.choice([1, 7, 100, 4096, 9000])))))
        s.append(("random-lines-%d" % i, b"\n".join(bytes(rng.choice(b"ab \t\xc3\xa9\xff\x00.,-") for _ in range(rng.randrange(0, 40))) for _ in range(rng.randrange(1, 30))) + b"\n"))
    return s


def compressed_streams():
    """inputs that take the ReadCompressed path of util::FilePiece: valid, concatenated, truncated and corrupt members"""
    import bz2
    import gzip
    import lzma
    text = b"hello world\nsecond line\n\xff\xfe bad\n"
    gz, bz, xz = gzip.compress(text), bz2.compress(text), lzma.compress(text)
    out = [("gz-valid", gz), ("bz2-valid", bz), ("xz-valid", xz), ("gz-concat", gz + gzip.compress(b"tail\n")), ("bz2-concat", bz + bz2.compress(b"tail\n")),
           ("xz-concat", xz + lzma.compress(b"tail\n")), ("gz-then-plain", gz + b"plain text\n"), ("gz-then-bz2", gz + bz),
           ("gz-long-line", gzip.compress(b"a" * (1 << 20) + b"\n")), ("gz-empty-member", gzip.compress(b"")), ("bz2-empty-member", bz2.compress(b"")),
           ("xz-empty-member", lzma.compress(b""))]
    for name, blob in (("gz", gz), ("bz2", bz), ("xz", xz)):
        for cut in (3, 8, len(blob) // 2, len(blob) - 1):
            out.append(("%s-truncated-%d" % (name, cut), blob[:cut]))
        bad = bytearray(blob)
        bad[len(bad) // 2] ^= 0x55
        out.append(("%s-corrupt-mid" % name, bytes(bad)))
        bad = bytearray(blob)
        bad[-3] ^= 0xff
        out.append(("%s-corrupt-trailer" % name, bytes(bad)))
    return out


def base64_streams(rng, tier):
    return [("b64-empty-doc", b"\nYQ==\n"), ("b64-pad-only", b"====\n=\n"), ("b64-1char", b"A\n"), ("b64-2char", b"AA\n"), ("b64-3char", b"AAA\n"),
            ("b64-foreign", b"!!!!\nYQ=\xff\n"), ("b64-double", b"YQ==YQ==\n"), ("b64-nul", b"AA==\n"), ("b64-no-newline-docs", b"YWJj\nZGVm"),
            ("b64-only-newlines-doc", b"CgoK\n"), ("b64-long", b"QUJD" * 100000 + b"\n"), ("b64-crlf", b"YQ==\r\n"), ("b64-space", b"YQ == \n")]


def warc_streams(rng, tier):
    def hdr(n):
        return b"WARC/1.0\r\nContent-Length: " + str(n).encode() + b"\r\n\r\n"
    out = [("warc-empty", b""), ("warc-bad-version", b"WARC/0.9\r\nContent-Length: 0\r\n\r\n\r\n\r\n"), ("warc-no-length", b"WARC/1.0\r\nWARC-Type: x\r\n\r\nabc\r\n\r\n"),
           ("warc-two-lengths", b"WARC/1.0\r\nContent-Length: 1\r\nContent-Length: 1\r\n\r\na\r\n\r\n"), ("warc-trunc-header", b"WARC/1.0\r\nContent-Le"),
           ("warc-trunc-body", hdr(100) + b"short"), ("warc-huge-length", hdr(99999999999999999)), ("warc-length-overflow", hdr(2**63 - 1)),
           ("warc-length-garbage", b"WARC/1.0\r\nContent-Length: 12x\r\n\r\n"), ("warc-lf-only", b"WARC/1.0\nContent-Length: 2\n\nab\r\n\r\n"),
           ("warc-bad-trailer", hdr(2) + b"abXXXX"), ("warc-ok", tr.WARC1 + tr.WARC2)]
    for cut in range(1, len(tr.WARC1)):
        out.append(("warc-cut-%d" % cut, tr.WARC1[:cut]))
    for n in (1, 4, 5, 28, 29, 30, 31, 32, 33, 34, 35, 36, 37, 38, 40, 100):
        out.append(("warc-negative-%d" % n, hdr(-n)))
        out.append(("warc-negative-%d-more" % n, hdr(-n) + b"WARC/1.0\r\nContent-Length: 0\r\n\r\n\r\n\r\n"))
    return out


def option_cases():
    """(label, tool, argv tail, stdin, files)"""
    T = tr.Tool
    few = b"a\tb\nc\td\te\n\n"
    return [
        T("shard", ["--prefix", "{W}/p", "--number", "0"], few, label="shard-number-0"),
        T("shard", ["--prefix", "{W}/p", "--number", "1"], few, label="shard-number-1"),
        T("shard", ["--prefix", "{W}/p", "--number", "11"], few, label="shard-number-11"),
        T("shard", ["-f", "0", "{W}/a", "{W}/b"], few, label="shard-f-0"),
        T("shard", ["-f", "2-1", "{W}/a"], few, label="shard-f-2-1"),
        T("shard", ["-f", "x", "{W}/a"], few, label="shard-f-x"),
        T("shard", ["-c", "bogus", "{W}/a"], few, label="shard-c-bogus"),
        T("shard", ["-c", "gzip", "{W}/a", "{W}/b", "{W}/c", "{W}/d"], b"a\n", label="shard-gzip-empty-shards"),
        T("shard", ["-c", "bzip2", "{W}/a", "{W}/b", "{W}/c", "{W}/d"], b"a\n", label="shard-bzip2-empty-shards"),
        T("shard", ["-c", "gzip", "{W}/a"], b"", label="shard-gzip-empty-input"),
        T("shard", ["{W}/nonexistent-dir/a"], few, label="shard-unwritable"),
        T("dedupe", ["-f", "0"], few, label="dedupe-f-0"), T("dedupe", ["-f", "2-1"], few, label="dedupe-f-2-1"),
        T("dedupe", ["-f", "1,1"], few, label="dedupe-f-1,1"), T("dedupe", ["-f", "99999999999999999999"], few, label="dedupe-f-huge"),
        T("dedupe", ["-f", "3", "-d", ""], few, label="dedupe-d-empty"), T("dedupe", ["-f", ""], few, label="dedupe-f-empty"),
        T("dedupe", ["-p", "{W}/in0", "{W}/in1", "{W}/o0"], b"", {"in0": b"a\n", "in1": b"b\n"}, label="dedupe-p-3-files"),
        T("dedupe", ["-p", "{W}/in0", "{W}/in1", "{W}/o0", "{W}/o1"], b"", {"in0": b"a\nb\n", "in1": b"b\n"}, label="dedupe-p-unbalanced"),
        T("dedupe", ["-p", "{W}/missing", "{W}/in1", "{W}/o0", "{W}/o1"], b"", {"in1": b"b\n"}, label="dedupe-p-missing"),
        T("cache", ["-k", "0", "cat"], few, label="cache-k-0"), T("cache", ["-k", "2-1", "cat"], few, label="cache-k-2-1"),
        T("cache", ["-t", "", "cat"], few, label="cache-t-empty"), T("cache", ["/nonexistent/program"], few, label="cache-no-such-child"),
        T("cache", ["-k"], few, label="cache-k-missing-arg"),
        T("foldfilter", ["-w", "0", "cat"], b"hello world\n\n", label="foldfilter-w-0"), T("foldfilter", ["-w", "1", "cat"], "héllo wörld\n".encode(), label="foldfilter-w-1"),
        T("foldfilter", ["-w", "-5", "cat"], b"hello world\n", label="foldfilter-w-neg"), T("foldfilter", ["-w", "99999999999", "cat"], b"hello\n", label="foldfilter-w-huge"),
        T("foldfilter", ["-w", "3", "-d", "", "cat"], b"hello world\n", label="foldfilter-d-empty"), T("foldfilter", ["-w", "3", "-d", b"\xff".decode("latin1"), "cat"], b"a\xffb c\n", label="foldfilter-d-bad-utf8"),
        T("foldfilter", ["-w", "3", "-s", "cat"], b"  ,,  ..  \n,\n", label="foldfilter-s-only-delims"), T("foldfilter", ["-w", "4", "cat"], b"ab\xff\xfecd \xc3\n", label="foldfilter-bad-utf8-line"),
        T("foldfilter", ["-w", "abc", "cat"], b"x\n", label="foldfilter-w-abc"), T("foldfilter", ["/nonexistent/program"], b"x\n", label="foldfilter-no-such-child"),
        T("b64filter", ["/nonexistent/program"], b"YQ==\n", label="b64filter-no-such-child"),
        T("remove_long_lines", ["abc"], few, label="rll-abc"), T("remove_long_lines", ["-1"], few, label="rll-neg"), T("remove_long_lines", ["0"], few, label="rll-0"),
        T("remove_long_lines", ["99999999999999999999"], few, label="rll-huge"), T("remove_long_lines", [], few, label="rll-default"),
        T("simple_cleaning", ["--min-chars", "-1"], few, label="sc-min-chars-neg"), T("simple_cleaning", ["--character-run", "0"], b"aaaa bbbb this is a long enough line to be kept, really\n", label="sc-run-0"),
        T("simple_cleaning", ["--scripts", "Bogus"], few, label="sc-bogus-script"), T("simple_cleaning", ["--scripts", "Latn", "--min-scripts", "2"], tr.LONGLINE, label="sc-min-scripts-2"),
        T("simple_cleaning", ["-f", "2", "-d", ","], b"a,\xff\xfe,c\n" + tr.LONGLINE, label="sc-fields-bad-utf8"), T("simple_cleaning", ["--min-punct-sample-size", "0", "--min-punct", "2"], tr.LONGLINE, label="sc-punct"),
        T("docenc", ["0"], b"a\n\nb\n", label="docenc-index-0"), T("docenc", ["-1"], b"a\n\nb\n", label="docenc-index-neg"), T("docenc", ["abc"], b"a\n", label="docenc-index-abc"),
        T("docenc", ["99999999999999999999"], b"a\n", label="docenc-index-huge"), T("docenc", ["3-1"], b"a\n\nb\n\nc\n", label="docenc-range-3-1"), T("docenc", ["1-"], b"a\n\nb\n", label="docenc-range-open"),
        T("docenc", ["-d", "2", "1", "1"], b"YQ==\nYg==\n", label="docenc-d-indices"), T("docenc", ["-0"], b"a\x00b\x00\x00", label="docenc-0"), T("docenc", ["-d", "-0"], b"YQ==\nAA==\n", label="docenc-d-0-nul-doc"),
        T("docenc", ["-d", "-n"], b"YQpi\n", label="docenc-d-n"), T("docenc", ["{W}/missing"], b"", label="docenc-missing-file"),
        T("process_unicode", ["-l", "xx", "--flatten"], "a😀b “q”\n".encode(), label="pu-unknown-language"), T("process_unicode", ["--flatten", "--normalize", "--lower"], b"\xff\xfe \xed\xa0\x80 \xc3\n", label="pu-bad-utf8"),
        T("process_unicode", ["--bogus"], b"x\n", label="pu-bogus-option"),
        T("substitute", [], b"a\tb\n", label="substitute-few-fields"),
        T("commoncrawl_dedupe", ["{W}/missing"], few, label="ccd-missing-file"), T("commoncrawl_dedupe", ["a", "b"], few, label="ccd-two-args"),
        T("subtract_lines", ["{W}/missing"], few, label="subtract-missing-file"), T("subtract_lines", [], few, label="subtract-no-arg"),
        T("truecase", ["--model", "{W}/model"], b"Hello \xff\xfe world . \xc3\n", {"model": b"Hello (3/4) hello (1/4)\n\xff\xfe (1/1)\n"}, label="truecase-bad-utf8"),
        T("truecase", ["--model", "{W}/model"], b"hello\n", {"model": b"\n\n(\nHello\nHello (3/4) hello\n"}, label="truecase-bad-model"),
        T("truecase", ["--model", "{W}/model"], b"hello\n", {"model": b""}, label="truecase-empty-model"), T("truecase", ["--model", "{W}/missing"], b"hello\n", label="truecase-missing-model"),
        T("apply_case", ["{W}/align", "{W}/src", "{W}/tgt", "{W}/model"], b"", {"align": b"0 ||| 5-7\n", "src": b"a b\n", "tgt": b"a b\n", "model": b"1\tA 1\n"}, label="apply_case-index-too-high"),
        T("apply_case", ["{W}/align", "{W}/src", "{W}/tgt", "{W}/model"], b"", {"align": b"0 ||| 0-x\n", "src": b"a b\n", "tgt": b"a b\n", "model": b"1\tA 1\n"}, label="apply_case-bad-number"),
        T("apply_case", ["{W}/align", "{W}/src", "{W}/tgt", "{W}/model"], b"", {"align": b"", "src": b"a b\n", "tgt": b"", "model": b"x\ty\n"}, label="apply_case-bad-model"),
        T("apply_case", ["{W}/align", "{W}/src", "{W}/tgt", "{W}/model"], b"", {"align": b"0 ||| 0-0\n", "src": b"a\n", "tgt": b"\n", "model": b"1\tA\n"}, label="apply_case-empty-target"),
        T("apply_case", ["{W}/align", "{W}/src", "{W}/tgt", "{W}/model"], b"", {"align": b"0 ||| 0-0\n", "src": b"\xff\n", "tgt": b"\xfe\xff\n", "model": b"1\tA 1\tB\n"}, label="apply_case-bad-utf8"),
        T("train_case", ["{W}/align", "{W}/src", "{W}/tgt"], b"", {"align": b"garbage\n", "src": b"a\n", "tgt": b"a\n"}, label="train_case-garbage-align"),
        T("train_case", ["{W}/align", "{W}/src", "{W}/tgt"], b"", {"align": tr.GIZA.replace(b"({ 2 })", b"({ 9 })"), "src": b"Hello World\n", "tgt": b"Hello World\n"}, label="train_case-index-too-high"),
        T("train_case", ["{W}/align", "{W}/src", "{W}/tgt"], b"", {"align": tr.GIZA.replace(b"({ 2 })", b"({ 0 })"), "src": b"Hello World\n", "tgt": b"Hello World\n"}, label="train_case-index-0"),
        T("train_case", ["{W}/align", "{W}/src", "{W}/tgt"], b"", {"align": tr.GIZA, "src": b"Hello \xff\xfe\n", "tgt": b"\xc3 World\n"}, label="train_case-bad-utf8"),
        T("train_case", ["{W}/align", "{W}/src", "{W}/tgt"], b"", {"align": tr.GIZA, "src": b"", "tgt": b""}, label="train_case-empty"),
        T("warc_parallel", ["-j", "0", "cat"], tr.WARC1, label="warc_parallel-j-0"), T("warc_parallel", ["-j", "1", "-z", "cat"], tr.WARC1 + tr.WARC2, label="warc_parallel-z"),
        T("warc_parallel", ["-j", "2", "-i", "{W}/missing", "--", "cat"], b"", label="warc_parallel-missing-input"), T("warc_parallel", ["-j"], b"", label="warc_parallel-j-missing"),
        T("warc_parallel", ["-j", "1", "true"], tr.WARC1, label="warc_parallel-child-ignores-input"), T("warc_parallel", ["-j", "1", "sh", "-c", "cat; echo garbage"], tr.WARC1, label="warc_parallel-child-garbage"),
        # children that die early, answer too little or too much: the wrappers' error paths
        T("cache", ["{HX}/vchild", "1", "exit:3", "nodrain"], b"a\nb\nc\n", label="cache-child-dies-early"),
        T("cache", ["{HX}/vchild", "0", "sig:9", "nodrain"], b"a\nb\nc\n", label="cache-child-killed-at-once"),
        T("cache", ["{HX}/vchild", "-1", "exit:0", "drain", "3"], b"a\nb\n", label="cache-child-surplus"),
        T("foldfilter", ["-w", "5", "{HX}/vchild", "2", "exit:0", "drain"], b"hello world, again\nx\n", label="foldfilter-child-stops-answering"),
        T("foldfilter", ["-w", "5", "{HX}/vchild", "-1", "exit:0", "drain", "2"], b"hello world\n", label="foldfilter-child-surplus"),
        T("foldfilter", ["-w", "5", "{HX}/vchild", "1", "sig:11", "nodrain"], b"hello world\n", label="foldfilter-child-segv"),
        T("b64filter", ["{HX}/vchild", "1", "exit:0", "nodrain"], b"YQpiCg==\nYw==\n", label="b64filter-child-dies-early"),
        T("b64filter", ["{HX}/vchild", "-1", "exit:0", "drain", "1"], b"YQpiCg==\n", label="b64filter-child-surplus"),
        T("b64filter", ["tr", "-d", "\\n"], b"YQpiCg==\nYw==\n", label="b64filter-child-eats-newlines"),
        T("warc_parallel", ["-j", "2", "{HX}/vchild", "1", "exit:1", "nodrain"], tr.WARC1 + tr.WARC2, label="warc_parallel-child-dies"),
        # options but no command for the child
        T("warc_parallel", ["--"], tr.WARC1, label="warc_parallel-no-command"), T("warc_parallel", ["-j", "2", "--"], tr.WARC1, label="warc_parallel-j-no-command"),
        T("cache", ["-k", "1"], few, label="cache-no-command"), T("cache", ["-k", "1", "-t", ","], few, label="cache-no-command-2"),
        T("base64_number", ["x"], b"YQ==\n", label="base64_number-extra-arg"),
        T("mmhsum", ["x"], b"", label="mmhsum-arg"),
    ]


def stream_matrix(c):
    rng = c.rng
    gen = generic_streams(rng, c.tier)
    b64 = base64_streams(rng, c.tier)
    warc = warc_streams(rng, c.tier)
    jobs = []
    for t in tr.catalogue():
        if t.kind == "wrapper" and t.name != "warc_parallel":
            base = tr.Tool(t.name, [a for a in t.args[:-3]] + ["cat"], t.stdin, t.files, t.outputs, t.kind, t.label)
        elif t.name == "warc_parallel":
            base = tr.Tool(t.name, ["-j", "1", "cat"], t.stdin, t.files, t.outputs, t.kind, t.label)
        else:
            base = t
        if not base.reads_stdin:
            continue
        streams = list(gen)
        if base.name in ("b64filter", "base64_number", "remove_invalid_utf8_base64") or base.label == "docenc-d":
            streams += b64
        if base.name == "warc_parallel":
            streams = warc + gen[:12]
        if c.tier == "quick" and base.name not in ("b64filter", "warc_parallel", "truecase", "foldfilter", "idf", "shard"):
            # quick tier: every tool sees the structural cases; the megabyte cases go to a rotating third of the tools
            heavy = {"long-line", "long-no-newline", "long-utf8", "many-empty", "long-spaces", "b64-long", "edge-block-minus1", "edge-block", "edge-block-plus1",
                     "edge-2blocks", "edge-block-cr", "edge-block-many", "gz-long-line"}
            import zlib
            if base.name == "cache":
                # known deadlock on long lines (F20-6): one megabyte case keeps it visible, each costs a full timeout
                streams = [s for s in streams if s[0] not in heavy or s[0] == "long-line"]
            elif (zlib.crc32(base.label.encode()) + c.seed) % 3:
                streams = [s for s in streams if s[0] not in heavy]
        for name, data in streams:
            jobs.append((tr.Tool(base.name, base.args, data, base.files, base.outputs, base.kind, base.label), name))
        # the same bytes as a regular file on stdin: util::FilePiece then maps the file instead of reading it
        for name, data in streams:
            if name in FILE_BACKED:
                jobs.append((tr.Tool(base.name, base.args, data, base.files, base.outputs, base.kind, base.label), name + "@file"))
    # field-selecting variants on streams whose lines lack the selected fields
    fsel = [("dedupe", ["-f", "2"], []), ("dedupe", ["-f", "1,3-", "-d", " "], []), ("shard", ["-f", "2-"], ["{W}/f1", "{W}/f2"]),
            ("simple_cleaning", ["-f", "2", "--min-chars", "1"], []), ("cache", ["-k", "2"], ["cat"]), ("cache", ["-k", "2-3", "-t", " "], ["cat"])]
    keep = {"few-fields", "many-fields", "tabs", "empty", "newline", "nul-in-line", "bad-utf8-word", "random-lines-0", "spaces", "crlf", "no-final-newline", "tab-numbers"}
    for name, opts, tail in fsel:
        for sname, data in gen:
            if c.tier == "thorough" or sname in keep:
                if len(data) <= 20000:
                    jobs.append((tr.Tool(name, opts + tail, data, label="%s %s" % (name, " ".join(opts))), sname))
    # model / alignment files made of garbage
    for i in range(2 if c.tier == "quick" else 12):
        junk = lambda n: bytes(rng.choice(b"ab \n\t(){}|-0123456789\xff") for _ in range(n))
        jobs.append((tr.Tool("apply_case", ["{W}/align", "{W}/src", "{W}/tgt", "{W}/model"], b"",
                             {"align": junk(80), "src": junk(40), "tgt": junk(40), "model": junk(60)}, label="apply_case-junk-files"), "options"))
        jobs.append((tr.Tool("train_case", ["{W}/align", "{W}/src", "{W}/tgt"], b"", {"align": junk(120), "src": junk(40), "tgt": junk(40)}, label="train_case-junk-files"), "options"))
        jobs.append((tr.Tool("truecase", ["--model", "{W}/model"], junk(100), {"model": junk(120)}, label="truecase-junk-model"), "options"))
        jobs.append((tr.Tool("subtract_lines", ["{W}/sub"], junk(100), {"sub": junk(100)}, label="subtract_lines-junk"), "options"))
        jobs.append((tr.Tool("commoncrawl_dedupe", ["{W}/rm"], junk(100), {"rm": junk(100)}, label="commoncrawl_dedupe-junk"), "options"))
    for t in option_cases():
        jobs.append((t, "options"))
    # every option of the option-taking tools with every hostile value
    OPTS = {
        "dedupe": (["-f", "--fields", "-d", "--delim"], []),
        "shard": (["-f", "-d", "--prefix", "-n", "--number", "-c", "--compress"], ["{W}/o1", "{W}/o2"]),
        "cache": (["-k", "--key", "-t", "--field_separator"], ["cat"]),
        "simple_cleaning": (["-f", "-d", "--min-chars", "--character-run", "--max-common-inherited", "--min-punct", "--min-punct-sample-size", "--scripts", "--min-scripts"], []),
        "process_unicode": (["-l", "--language"], ["--flatten", "--lower"]),
        "warc_parallel": (["-j", "--jobs", "-i"], ["--", "cat"]),
        "foldfilter": (["-w", "-d"], ["cat"]),
        "docenc": (["-d", ""], []),
        "remove_long_lines": ([""], []),
    }
    VALUES = ["-1", "0", "1", "2", "2147483647", "2147483648", "4294967296", "18446744073709551616", "1e99", "0.5", "nan", "", "x", ",", "\t", "\xff",
              "a" * 300, "1-", "-1-", "1,2", "2-1", "1-2-3", "Latn", "1 2"]
    data = b"a\tb c\nd,e\tf\n" + tr.LONGLINE + b"YQ==\n" + tr.WARC1
    n = 0
    for name, (opts, tail) in sorted(OPTS.items()):
        for o in opts:
            for v in VALUES:
                n += 1
                if c.tier == "quick" and (n + c.seed) % 6:
                    continue
                if name == "shard" and o in ("-n", "--number") and ((v.isdigit() and int(v) > 300) or v == "-1"):
                    continue          # would create millions of files ("-1" is read as 4294967295 by boost's unsigned parser: noted, not pursued)
                if name == "warc_parallel" and o in ("-j", "--jobs") and v.isdigit() and int(v) > 64:
                    continue          # would fork thousands of children
                args = ([o, v] if o else [v]) + tail
                if name == "shard" and o in ("--prefix", "-n", "--number"):
                    args = [o, v] + (["-n", "2"] if o == "--prefix" else ["--prefix", "{W}/p"])
                jobs.append((tr.Tool(name, args, data, label="%s-opt %s %r" % (name, o, v[:12])), "options"))
    # command lines nobody wrote a case for: every executable with generic hostile argument vectors
    hostile = [["--help"], ["-h"], ["--bogus"], ["-"], ["--"], [""], ["-f"], ["--fields"], ["-\xff"], ["a" * 5000], ["-f", "1", "-f", "2"], ["--", "--", "x"],
               ["-1"], ["99999999999999999999999"], ["-d"], ["-w"], ["-j"], ["-n", "-1"], ["--number", "abc"], ["-c"], ["/nonexistent/file"], ["{W}"]]
    if c.tier == "quick":
        hostile = [h for i, h in enumerate(hostile) if (i + c.seed) % 2 == 0] + [["--help"], [""]]
    for name in tr.ALL_EXECUTABLES:
        for h in hostile:
            jobs.append((tr.Tool(name, h, b"a b\tc\n\nYQ==\n", label=name + "-hostile-args"), "options"))
    return jobs


def classify(rc, err):
    if rc == "timeout":
        return "hang", "no termination within the timeout"
    # error messages may quote megabyte lines: look at bounded prefixes of the lines only (no regex over raw stderr)
    lines = [l[:400] for l in (err[:20000] + b"\n" + err[-20000:]).decode("utf-8", "replace").split("\n")]
    # an allocation the system cannot satisfy is std::bad_alloc without the sanitizer: a diagnosed error
    for l in lines:
        if "AddressSanitizer" in l and ("out of memory" in l or "allocation size" in l or "allocation-size-too-big" in l):
            return "ok", "out of memory (bad_alloc)"
    for l in lines:
        if "ERROR: AddressSanitizer" in l or "runtime error:" in l or ("Assertion '" in l and "failed" in l) or "UndefinedBehaviorSanitizer" in l or "AddressSanitizer:DEADLYSIGNAL" in l:
            return "sanitizer", l.strip()[:300]
    if isinstance(rc, int) and rc < 0:
        if -rc in CRASH_SIGNALS:
            return "crash", "killed by " + CRASH_SIGNALS[-rc]
        if -rc == 6 and not err.strip():
            return "crash", "abort() without any diagnostic"
    return "ok", ""


NONDETERMINISTIC = {"warc_parallel"}     # several workers: record order depends on scheduling


def _slurp(p):
    try:
        with open(p, "rb") as f:
            return f.read()
    except OSError:
        return None


def part_tools(c, bindir_san, hx, bindir_rel):
    jobs = stream_matrix(c)

    def work(j):
        t, sname = j
        with tr.Scratch(SCRATCH, t) as w:
            env = dict(os.environ, **SAN_ENV)
            if sname.endswith("@file"):
                p = os.path.join(w, "stdin.bin")
                with open(p, "wb") as f:
                    f.write(t.stdin)
                with open(p, "rb") as f:
                    rc, out, err = tr.run(t.argv(bindir_san, w, hx), timeout=TOOL_TIMEOUT, env=env, cwd=w, stdin_file=f)
                return j, rc, err, None
            else:
                rc, out, err = tr.run(t.argv(bindir_san, w, hx), t.stdin, timeout=TOOL_TIMEOUT, env=env, cwd=w)
                # differential run: the uninstrumented -O2 build must behave the same (a difference means the result
                # depends on something the language leaves undefined: uninitialised data, evaluation of garbage ...)
                if rc != "timeout" and len(t.stdin) <= 300000 and t.name not in NONDETERMINISTIC and not any("vchild" in a for a in t.args):
                    outs_san = {o: _slurp(os.path.join(w, o)) for o in t.outputs}
                    for o in t.outputs:
                        try:
                            os.unlink(os.path.join(w, o))
                        except OSError:
                            pass
                    rc2, out2, err2 = tr.run(t.argv(bindir_rel, w, hx), t.stdin, timeout=TOOL_TIMEOUT, cwd=w)
                    outs_rel = {o: _slurp(os.path.join(w, o)) for o in t.outputs}
                    same_status = tr.status_class(rc2) == tr.status_class(rc) or (tr.status_class(rc2)[0] == "signal" and tr.status_class(rc)[0] == "signal")
                    # what a run leaves behind after an abnormal end depends on timing (buffers, threads): compare content only for exit 0
                    content_differs = rc == 0 and rc2 == 0 and (out2 != out or outs_rel != outs_san)
                    if classify(rc, err)[0] == "ok" and (content_differs or not same_status):
                        return j, rc, err, (rc2, out[:200], out2[:200])
            return j, rc, err, None

    with ThreadPoolExecutor(WORKERS) as ex:
        results = list(ex.map(work, jobs))
    for (t, sname), rc, err, diff in results:
        kind, detail = classify(rc, err)
        c.count((t.label, sname), bucket="tool-run/%s/%s" % ("options" if sname == "options" else "stream", kind))
        if diff is not None:
            c.violation("build-dependent-behaviour: %s %s on input '%s': sanitizer build (-O1) gives status %s / %r, release build (-O2) status %s / %r" % (
                t.name, " ".join(t.args[:4]), sname, rc, diff[1][:60], diff[0], diff[2][:60]),
                {"tool": t.label, "executable": t.name, "argv": t.argv("$BIN", "$W", "$HX"), "stream": sname, "stdin_hex": hexs(t.stdin) if len(t.stdin) <= 4096 else None,
                 "files_hex": {k_: hexs(v) for k_, v in t.files.items()}, "status": rc, "report": "outputs differ between builds", "status_release": diff[0]})
        if kind == "ok":
            continue
        small = len(t.stdin) <= 4096
        rep = {"tool": t.label, "executable": t.name, "argv": t.argv("$BIN", "$W", "$HX"), "stream": sname,
               "stdin_hex": hexs(t.stdin) if small else None, "stdin_desc": None if small else "%d bytes, category %s (see generic_streams in checks/C20.py)" % (len(t.stdin), sname),
               "files_hex": {k_: hexs(v) for k_, v in t.files.items()}, "status": rc, "report": detail, "stderr_tail": err.decode("utf-8", "replace")[-600:],
               "how": "build flavour '%s' (ASan+UBSan+_GLIBCXX_ASSERTIONS); cd $W && %s < stdin" % (SAN, " ".join(t.argv("$BIN", "$W", "$HX")))}
        c.violation("%s: %s %s on input '%s': %s" % (kind, t.name, " ".join(t.args[:4]), sname, detail), rep)
    c.sample({"tool_run": results[0][0][0].label, "stream": results[0][0][1], "status": results[0][1]})


VALGRIND_QUICK = {"empty", "bad-utf8-word", "nul-in-line", "no-final-newline", "gz-valid", "bz2-valid", "xz-valid", "gz-truncated-8", "b64-empty-doc", "b64-foreign",
                  "warc-ok", "warc-trunc-body", "gigaword-entities", "astral", "few-fields"}


def part_valgrind(c, bindir_rel, hx):
    """uninitialised-value use is invisible to ASan: memcheck on the uninstrumented build (small inputs only)"""
    if not shutil.which("valgrind"):
        c.assumptions.append("valgrind not installed: no uninitialised-value detection in this run")
        return
    jobs = []
    for t in tr.catalogue():
        jobs.append((t, "catalogue"))
    for t, sname in stream_matrix(c):
        if len(t.stdin) > 20000 or sname.endswith("@file"):
            continue
        if sname == "options" and ("-opt " in t.label or "-hostile-args" in t.label):
            # the generated option matrix is large: memcheck sees every 4th of what the sanitizer build saw
            nopt = getattr(part_valgrind, "_n", 0) + 1
            part_valgrind._n = nopt
            if nopt % 4:
                continue
        if sname == "options" or c.tier == "thorough" or sname in VALGRIND_QUICK:
            jobs.append((t, sname))

    def work(j):
        t, sname = j
        with tr.Scratch(SCRATCH, t) as w:
            argv = ["valgrind", "-q", "--error-exitcode=99", "--trace-children=no", "--child-silent-after-fork=yes"] + t.argv(bindir_rel, w, hx)
            rc, out, err = tr.run(argv, t.stdin, timeout=120, cwd=w)
            return j, rc, err

    with ThreadPoolExecutor(WORKERS) as ex:
        results = list(ex.map(work, jobs))
    for (t, sname), rc, err in results:
        lines = [l[:300] for l in err[:30000].decode("utf-8", "replace").split("\n")]
        hits = [l for l in lines if l.startswith("==") and ("uninitialised" in l or "Invalid read" in l or "Invalid write" in l or "Invalid free" in l
                                                            or "Mismatched free" in l or "overlap" in l)]
        c.count(("valgrind", t.label, sname), bucket="valgrind/%s" % ("report" if (hits or rc == 99) else ("timeout" if rc == "timeout" else "clean")))
        if hits or rc == 99:
            small = len(t.stdin) <= 4096
            c.violation("memcheck: %s %s on input '%s': %s" % (t.name, " ".join(t.args[:4]), sname, (hits or ["valgrind error exit"])[0]),
                        {"tool": t.label, "executable": t.name, "argv": ["valgrind", "-q"] + t.argv("$BIN", "$W", "$HX"), "stream": sname,
                         "stdin_hex": hexs(t.stdin) if small else None, "files_hex": {k_: hexs(v) for k_, v in t.files.items()}, "status": rc,
                         "report": (hits or [""])[0], "stderr_tail": "\n".join(lines[:25])})


def part_valgrind_faults(c, bindir_rel, hx):
    """error paths are where uninitialised / freed memory gets used: memcheck while the k-th read/write/fsync/close fails
    (libvfault, activated only inside the tool through VFAULT_ONLY so that it passes through the valgrind launcher)"""
    if not shutil.which("valgrind"):
        return
    lib = os.path.join(hx, "libvfault.so")
    tools = tr.catalogue()
    if c.tier == "quick":
        tools = [t for t in tools if t.kind == "wrapper" or t.label in ("remove_long_lines", "shard", "dedupe-p", "commoncrawl_dedupe", "docenc-d")]
    jobs = []
    for t in tools:
        # how many calls of each kind does the fault-free run make?
        with tr.Scratch(SCRATCH, t) as w:
            logp = os.path.join(w, "vf.log")
            env = dict(os.environ, LD_PRELOAD=lib, VFAULT_LOG=logp)
            rc, out, err = tr.run(t.argv(bindir_rel, w, hx), t.stdin, timeout=30, env=env, cwd=w)
            counts = {}
            try:
                for l in open(logp):
                    op = l.split()[0]
                    counts[op] = counts.get(op, 0) + 1
            except FileNotFoundError:
                pass
        for op, n in sorted(counts.items()):
            ks = range(1, n + 1) if c.tier == "thorough" else sorted(set([1, 2, n // 2 + 1, n]))
            for k in ks:
                if 1 <= k <= n:
                    jobs.append((t, op, k))

    def work(j):
        t, op, k = j
        with tr.Scratch(SCRATCH, t) as w:
            env = dict(os.environ, LD_PRELOAD=lib, VFAULT_ONLY=t.name, VFAULT_OP=op, VFAULT_FD="any", VFAULT_K=str(k), VFAULT_ERRNO="5")
            argv = ["valgrind", "-q", "--error-exitcode=99", "--trace-children=no", "--child-silent-after-fork=yes"] + t.argv(bindir_rel, w, hx)
            rc, out, err = tr.run(argv, t.stdin, timeout=120, env=env, cwd=w)
            return j, rc, err

    with ThreadPoolExecutor(WORKERS) as ex:
        results = list(ex.map(work, jobs))
    for (t, op, k), rc, err in results:
        lines = [l[:300] for l in err[:30000].decode("utf-8", "replace").split("\n")]
        hits = [l for l in lines if l.startswith("==") and ("uninitialised" in l or "Invalid read" in l or "Invalid write" in l or "Invalid free" in l or "Mismatched free" in l)]
        c.count(("valgrind-fault", t.label, op, k), bucket="valgrind-under-fault/%s" % ("report" if hits else ("timeout" if rc == "timeout" else "clean")))
        if hits:
            c.violation("memcheck-under-fault: %s while %s #%d fails with EIO: %s" % (t.name, op, k, hits[0]),
                        {"tool": t.label, "executable": t.name, "argv": ["valgrind", "-q"] + t.argv("$BIN", "$W", "$HX"), "stdin_hex": hexs(t.stdin),
                         "files_hex": {k_: hexs(v) for k_, v in t.files.items()}, "status": rc, "fault": {"op": op, "k": k, "errno": 5},
                         "report": hits[0], "stderr_tail": "\n".join(lines[:30]),
                         "how": "VFAULT_ONLY=%s VFAULT_OP=%s VFAULT_FD=any VFAULT_K=%d VFAULT_ERRNO=5 LD_PRELOAD=$HX/libvfault.so valgrind -q %s < stdin" % (
                             t.name, op, k, " ".join(t.argv("$BIN", "$W", "$HX")))})
        elif rc == "timeout":
            c.violation("hang: %s under valgrind while %s #%d fails" % (t.name, op, k), {"tool": t.label, "executable": t.name, "status": rc, "fault": {"op": op, "k": k}, "report": "no termination", "stream": "fault"})


def part_faults_sanitized(c, bindir_san, hx):
    """the same error paths under ASan/UBSan/libstdc++ assertions: every k-th read/write/fsync/close of every catalogue run fails"""
    lib = os.path.join(hx, "libvfault.so")
    env0 = dict(os.environ, **SAN_ENV)
    env0["ASAN_OPTIONS"] = env0["ASAN_OPTIONS"] + ":verify_asan_link_order=0"
    jobs = []
    for t in tr.catalogue():
        with tr.Scratch(SCRATCH, t) as w:
            logp = os.path.join(w, "vf.log")
            rc, out, err = tr.run(t.argv(bindir_san, w, hx), t.stdin, timeout=TOOL_TIMEOUT, env=dict(env0, LD_PRELOAD=lib, VFAULT_LOG=logp), cwd=w)
            counts = {}
            try:
                for l in open(logp):
                    op = l.split()[0]
                    counts[op] = counts.get(op, 0) + 1
            except FileNotFoundError:
                pass
        for op, n in sorted(counts.items()):
            for k in range(1, n + 1):
                if c.tier == "thorough" or k <= 3 or k >= n - 1 or (k + c.seed) % 3 == 0:
                    jobs.append((t, op, k, 5 if (k % 2) else 28))

    def work(j):
        t, op, k, eno = j
        with tr.Scratch(SCRATCH, t) as w:
            env = dict(env0, LD_PRELOAD=lib, VFAULT_OP=op, VFAULT_FD="any", VFAULT_K=str(k), VFAULT_ERRNO=str(eno))
            rc, out, err = tr.run(t.argv(bindir_san, w, hx), t.stdin, timeout=TOOL_TIMEOUT, env=env, cwd=w)
            return j, rc, err

    with ThreadPoolExecutor(WORKERS) as ex:
        results = list(ex.map(work, jobs))
    for (t, op, k, eno), rc, err in results:
        kind, detail = classify(rc, err)
        c.count(("san-fault", t.label, op, k), bucket="sanitizer-under-fault/%s" % kind)
        if kind != "ok":
            c.violation("%s-under-fault: %s while %s #%d fails with errno %d: %s" % (kind, t.name, op, k, eno, detail),
                        {"tool": t.label, "executable": t.name, "argv": t.argv("$BIN", "$W", "$HX"), "stdin_hex": hexs(t.stdin), "files_hex": {k_: hexs(v) for k_, v in t.files.items()},
                         "status": rc, "fault": {"op": op, "k": k, "errno": eno}, "report": detail, "stream": "fault", "stderr_tail": err.decode("utf-8", "replace")[-600:],
                         "how": "flavour '%s'; ASAN_OPTIONS=verify_asan_link_order=0 VFAULT_OP=%s VFAULT_FD=any VFAULT_K=%d VFAULT_ERRNO=%d LD_PRELOAD=$HX/libvfault.so %s < stdin" % (
                             SAN, op, k, eno, " ".join(t.argv("$BIN", "$W", "$HX")))})


# ---------------------------------------------------------------------------
# leaf parsers on every truncation of boundary inputs, flush against an inaccessible page

def leaf_cases(c):
    rng = c.rng
    seqs = set()
    for b in range(256):
        seqs.add(bytes([b]))
    for lead in list(range(0xc0, 0x100)):
        for t1 in ([0x00, 0x41, 0x7f, 0x80, 0x8f, 0x90, 0x9f, 0xa0, 0xbf, 0xc0, 0xff] if c.tier == "quick" else range(256)):
            seqs.add(bytes([lead, t1]))
    for lead in range(0xe0, 0xf0):
        for t1 in (0x7f, 0x80, 0x9f, 0xa0, 0xbf, 0xc0):
            for t2 in (0x41, 0x7f, 0x80, 0xbf, 0xc0):
                seqs.add(bytes([lead, t1, t2]))
    for lead in range(0xf0, 0x100):
        for t1 in (0x7f, 0x80, 0x8f, 0x90, 0xbf, 0xc0):
            for t2 in (0x00, 0x80, 0xbf, 0xc0):
                for t3 in (0x41, 0x80, 0xbf, 0xc0):
                    seqs.add(bytes([lead, t1, t2, t3]))
    lines = []
    for sq in sorted(seqs):
        for cut in range(1, len(sq) + 1):            # every truncation, at the very end of the readable memory
            for pre in (b"", b"a", "é".encode(), "a😀".encode()):
                lines.append("U " + (pre + sq[:cut]).hex())
    lines.append("U -")
    # base64: every truncation of encodings around the block boundaries, foreign bytes last
    import base64 as pyb64
    for n in range(0, 10):
        e = pyb64.b64encode(bytes(rng.randrange(256) for _ in range(n)))
        for cut in range(0, len(e) + 1):
            lines.append("B " + (e[:cut].hex() or "-"))
            for last in (0x3d, 0xff, 0x00, 0x7f, 0x2d):
                lines.append("B " + (e[:cut] + bytes([last])).hex())
    # field lists: every truncation of well-formed and hostile specifications
    for spec in (b"1", b"1-", b"-3", b"1-3", b"1,3-5,7-", b"2-1", b"0", b"1,,2", b"99999999999999999999", b"1-2-3", b" 1", b"-", b",", b"1,", b"3-,1"):
        for cut in range(0, len(spec) + 1):
            lines.append("P " + (spec[:cut].hex() or "-"))
    # RangeFields: lines that end inside / right after the selected fields
    for ln in (b"a\tb\tc", b"a\tb\t", b"a\t\t", b"\t", b"", b"a", b"a\tb", b"\t\t\t", b"abc\tdef\tghi\tjkl"):
        for cut in range(0, len(ln) + 1):
            for spec in (b"1", b"2", b"2-", b"1,3", b"3-4", b"-2", b"4-"):
                lines.append("F %s %s 09" % (ln[:cut].hex() or "-", spec.hex()))
    return lines


def part_leaf(c):
    lines = leaf_cases(c)
    for flavour, env in (("rel", None), (SAN, dict(os.environ, **SAN_ENV))):
        exe = hx_bin("hx_leaf", flavour)
        out, death = run_until_death(exe, lines, env=env)
        if death:
            first = [x for x in death[2].split("\n") if "ERROR" in x or "runtime error" in x or "Assertion" in x]
            c.violation("leaf-parser-overread: %s on %s (input flush against an inaccessible page, %s build): %s" % (
                {"U": "util::IsUTF8 / DecodeUTF8", "B": "base64_decode", "P": "ParseFields", "F": "RangeFields"}.get(death[0][:1], "parser"),
                death[0][:100], flavour, (first or ["killed, status %s" % death[1]])[0][:200]),
                {"harness": "hx_leaf", "case": death[0][:600], "flavour": flavour, "stderr": death[2][:1500]})
            continue
        c.cov["traces_validated_against_impl"] += len(out)
        if flavour != "rel":
            continue
        for l, o in zip(lines, out):
            c.count(l, bucket="leaf/" + l[:1])
            if l.startswith("U "):
                raw = bytes.fromhex(l[2:]) if l[2:] != "-" else b""
                try:
                    raw.decode("utf-8")
                    want = "1"
                except UnicodeDecodeError:
                    want = "0"
                if o.split()[0] != want:
                    c.violation("utf8-validity-wrong: util::IsUTF8(%s) = %s, Unicode says %s" % (raw.hex(), o.split()[0], want), {"harness": "hx_leaf", "case": l, "impl": o})


# ---------------------------------------------------------------------------
# the same content through every backing of util::FilePiece: plain file (mmap), gzip / bzip2 file (read path), FIFO

def part_backings(c, bindir_san, hx):
    import bz2
    import gzip
    jobs = []
    for t in tr.catalogue():
        if t.kind == "wrapper":
            continue
        variants = [("baseline", {}, None)]
        for fname in sorted(t.files):
            variants += [("%s=gz" % fname, {fname: ("bytes", gzip.compress(t.files[fname]))}, None),
                         ("%s=bz2" % fname, {fname: ("bytes", bz2.compress(t.files[fname]))}, None),
                         ("%s=fifo" % fname, {fname: ("fifo", t.files[fname])}, None)]
        if t.reads_stdin and t.kind != "iostream" or t.name in ("gigaword_unwrap", "order_independent_hash"):
            variants += [("stdin=file", {}, ("file", t.stdin)), ("stdin=gz-file", {}, ("file", gzip.compress(t.stdin))),
                         ("stdin=gz-pipe", {}, ("pipe", gzip.compress(t.stdin))), ("stdin=bz2-pipe", {}, ("pipe", bz2.compress(t.stdin)))]
        for v in variants:
            jobs.append((t, v))

    def work(j):
        t, (vname, repl, stdin_spec) = j
        with tr.Scratch(SCRATCH, t) as w:
            feeders = []
            for fname, (kind, data) in repl.items():
                path = os.path.join(w, fname)
                os.unlink(path)
                if kind == "bytes":
                    open(path, "wb").write(data)
                else:
                    os.mkfifo(path)
                    src = path + ".src"
                    open(src, "wb").write(data)
                    feeders.append(subprocess.Popen(["sh", "-c", "cat '%s' > '%s'" % (src, path)]))
            env = dict(os.environ, **SAN_ENV)
            try:
                if stdin_spec and stdin_spec[0] == "file":
                    sp = os.path.join(w, "stdin.bin")
                    open(sp, "wb").write(stdin_spec[1])
                    with open(sp, "rb") as f:
                        rc, out, err = tr.run(t.argv(bindir_san, w, hx), timeout=TOOL_TIMEOUT, env=env, cwd=w, stdin_file=f)
                else:
                    rc, out, err = tr.run(t.argv(bindir_san, w, hx), stdin_spec[1] if stdin_spec else t.stdin, timeout=TOOL_TIMEOUT, env=env, cwd=w)
            finally:
                for f in feeders:
                    f.kill()
                    f.wait()
            outs = {o: _slurp(os.path.join(w, o)) for o in t.outputs}
            return j, rc, out, outs, err

    with ThreadPoolExecutor(WORKERS) as ex:
        results = list(ex.map(work, jobs))
    base = {}
    for (t, (vname, _, _)), rc, out, outs, err in results:
        if vname == "baseline":
            base[t.label] = (rc, out, outs)
    for (t, (vname, repl, stdin_spec)), rc, out, outs, err in results:
        if vname == "baseline":
            continue
        kind, detail = classify(rc, err)
        c.count(("backing", t.label, vname), bucket="backing/%s/%s" % (vname.split("=")[1], kind))
        rep = {"tool": t.label, "executable": t.name, "argv": t.argv("$BIN", "$W", "$HX"), "stdin_hex": hexs(t.stdin), "files_hex": {k_: hexs(v) for k_, v in t.files.items()},
               "backing": vname, "status": rc, "report": detail or "differs from the plain-file run", "stream": "backing", "stderr_tail": err.decode("utf-8", "replace")[-500:],
               "how": "same invocation as the catalogue entry, with %s (gz/bz2: the file content compressed; fifo: mkfifo + cat)" % vname}
        if kind != "ok":
            c.violation("%s: %s with %s: %s" % (kind, t.name, vname, detail), rep)
        elif t.label in base and (tr.status_class(rc), out, outs) != (tr.status_class(base[t.label][0]), base[t.label][1], base[t.label][2]):
            c.violation("backing-dependent-behaviour: %s with %s: status %s, %d bytes of output; with plain files: status %s, %d bytes" % (
                t.name, vname, rc, len(out), base[t.label][0], len(base[t.label][1])), rep)


# ---------------------------------------------------------------------------
# records / lines that are large relative to the readers' internal buffers

def warc_big_header(cl_offset, total_hdr=0, body=b"hello world", pad=40, straddle=b"Content-Length"):
    """A valid WARC record whose header block is tens of KiB: the line `straddle` starts exactly at byte cl_offset of the record
    (so it can be put across any point at which WARCReader's string has to grow while the header is still being read)."""
    out = b"WARC/1.0\r\nWARC-Type: resource\r\n"
    i = 0
    while True:
        line = b"X-Pad-%05d: %s\r\n" % (i, b"p" * pad)
        if len(out) + len(line) + 12 > cl_offset:
            break
        out += line
        i += 1
    rest = cl_offset - len(out)
    if rest:
        out += b"X-Fill: " + b"f" * (rest - 10) + b"\r\n"
    assert len(out) == cl_offset
    if straddle == b"Content-Length":
        out += b"Content-Length: %d\r\n" % len(body)
    else:
        out += b"X-Straddle-Here: %s\r\n" % (b"s" * 30) + b"Content-Length: %d\r\n" % len(body)
    while total_hdr and len(out) + 60 < total_hdr:
        out += b"X-Tail-%05d: %s\r\n" % (i, b"t" * pad)
        i += 1
    return out + b"\r\n" + body + b"\r\n\r\n"


def part_large_records(c, bindir_san, hx):
    import gzip
    rng = c.rng
    quick = c.tier == "quick"
    jobs = []    # (tool, name, stdin kind, bytes, expected stdout or None)
    # (1) WARC header blocks of 20-70 KiB, one header line placed across every point where a 4096-byte ReadMore() can make the
    #     record string (reserve 32768, then doubling; later records inherit the capacity of the overhang) reallocate: k*4096 and
    #     6 + k*4096 (ReadCompressed hands over the 6 magic-detection bytes first), the line starting 1..23 bytes before it
    wp = tr.Tool("warc_parallel", ["-j", "1", "cat"], b"", kind="wrapper", label="warc_parallel")
    grow = [28672, 32768, 61440, 65536] if quick else [4096, 8192, 16384, 20480, 24576, 28672, 32768, 36864, 45056, 57344, 61440, 65536, 69632]
    for base in grow:
        for delta in (0, 6):
            ds = (2, 6, 10, 14, 18) if (quick and base == 28672) else ((rng.randrange(1, 20),) if quick else range(1, 24))
            for d in ds:
                for straddle in ((b"Content-Length",) if quick else (b"Content-Length", b"X")):
                    data = warc_big_header(base + delta - d, total_hdr=rng.choice([0, 0, base + 9000]), straddle=straddle)
                    jobs.append((wp, "warc-header-%d%+d-%d-%s" % (base, delta, d, straddle.decode()), "file", data, data))
    for i in range(3 if quick else 40):
        sizes = [rng.randrange(20000, 72000) for _ in range(rng.randrange(2, 5))]
        recs = [warc_big_header(rng.randrange(200, n - 100), total_hdr=n, body=bytes(rng.randrange(256) for _ in range(rng.choice([0, 11, 5000])))) for n in sizes]
        data = b"".join(recs)
        jobs.append((wp, "warc-big-headers-x%d-%d" % (len(recs), i), "file", data, data))
        jobs.append((wp, "warc-big-headers-x%d-%d" % (len(recs), i), "pipe", data, data))
        jobs.append((wp, "warc-big-headers-x%d-%d" % (len(recs), i), "gz-file", gzip.compress(data), data))
    # (2) a regular file on stdin (mmap backend of util::FilePiece) whose multi-megabyte line does NOT start on a page boundary
    #     and is longer than FilePiece's 1 MiB + 4 KiB window: every tool must come back (timeout = violation)
    shapes = [(6, 3000000)] if quick else [(6, 3000000), (1, 1052673), (6, 1052672 + 4096 + 1), (4095, 2200000), (4097, 2200000), (100000, 2105344), (6, 4300000)]
    for t in tr.catalogue():
        if not t.reads_stdin:
            continue
        args = t.args
        if t.kind == "wrapper":
            args = ["-j", "1", "cat"] if t.name == "warc_parallel" else list(t.args[:-3]) + ["cat"]
        for first, longlen in shapes:
            data = b"s" * (first - 1) + b"\n" + b"a" * longlen + b"\n" + b"tail\n"
            tt = tr.Tool(t.name, args, b"", t.files, t.outputs, t.kind, t.label)
            jobs.append((tt, "offset-long-line-%d+%d" % (first, longlen), "file", data, None))
            if not quick:
                jobs.append((tt, "offset-long-line-%d+%d" % (first, longlen), "gz-file", gzip.compress(data), None))

    def work(j):
        t, name, how, data, expect = j
        with tr.Scratch(SCRATCH, t) as w:
            env = dict(os.environ, **SAN_ENV)
            if how == "pipe":
                rc, out, err = tr.run(t.argv(bindir_san, w, hx), data, timeout=20, env=env, cwd=w)
            else:
                sp = os.path.join(w, "stdin.bin")
                with open(sp, "wb") as f:
                    f.write(data)
                with open(sp, "rb") as f:
                    rc, out, err = tr.run(t.argv(bindir_san, w, hx), timeout=20, env=env, cwd=w, stdin_file=f)
            return j, rc, out, err

    with ThreadPoolExecutor(WORKERS) as ex:
        results = list(ex.map(work, jobs))
    for (t, name, how, data, expect), rc, out, err in results:
        kind, detail = classify(rc, err)
        c.count(("large", t.label, name, how), bucket="large-records/%s/%s" % (name.split("-")[0], kind))
        small = len(data) <= 4096
        rep = {"tool": t.label, "executable": t.name, "argv": t.argv("$BIN", "$W", "$HX"), "stream": name, "stdin_backing": how,
               "stdin_hex": hexs(data) if small else None,
               "stdin_desc": None if small else "%d bytes; regenerate with warc_big_header / part_large_records in checks/C20.py (name encodes the parameters: "
                                                "warc-header-<growth point><+0|+6>-<bytes before it>-<line>; offset-long-line-<first line bytes>+<long line bytes>)" % len(data),
               "status": rc, "report": detail, "stderr_tail": err.decode("utf-8", "replace")[-600:],
               "how": "build flavour '%s'; stdin = %s; %s" % (SAN, how, " ".join(t.argv("$BIN", "$W", "$HX")))}
        if kind != "ok":
            c.violation("%s: %s on '%s' (stdin: %s): %s" % (kind, t.name, name, how, detail), rep)
        elif expect is not None and (rc != 0 or out != expect):
            rep["report"] = "valid records not passed through unchanged"
            c.violation("valid-input-rejected: %s -j 1 cat on '%s' (stdin: %s): status %s, %d bytes out for %d bytes of valid records: %s" % (
                t.name, name, how, rc, len(out), len(expect), err.decode("utf-8", "replace")[-160:]), rep)


# ---------------------------------------------------------------------------
# inputs with a known verdict: negative WARC lengths must be diagnosed as such; `cache cat` is the identity

def part_verdicts(c, bindir_san, hx):
    rng = c.rng
    quick = c.tier == "quick"
    jobs = []      # (tool, name, stdin, expected stdout or None, bytes that stderr must contain or None)
    wp = tr.Tool("warc_parallel", ["-j", "1", "cat"], b"", kind="wrapper", label="warc_parallel")
    good = b"WARC/1.0\r\nContent-Length: 2\r\n\r\nok\r\n\r\n"
    # Content-Length: -N.  N small, and N around the size of the header block (a length that wraps modulo 2^64 then makes the
    # record end inside or just behind its own header, so that the CRLF CRLF test looks in front of the buffer)
    for extra in ([b"", b"WARC-Type: response\r\n"] if quick else [b"", b"WARC-Type: response\r\n", b"X: y\r\n" * 40, b"WARC-Target-URI: http://example.org/" + b"a" * 900 + b"\r\n"]):
        for after_cl in (False, True):
            def rec(n, body=b""):
                h = b"WARC/1.0\r\n" + (b"" if after_cl else extra) + b"Content-Length: " + str(n).encode() + b"\r\n" + (extra if after_cl else b"") + b"\r\n"
                return h, h + body
            mags = set(range(1, 9))
            for digits in (1, 2, 3, 4, 5):
                hdr = len(rec(-(10 ** (digits - 1)))[0])          # header block size when N has that many digits
                mags |= {m for m in range(hdr - 2, hdr + 7) if m > 0 and len(str(m)) == digits}
            for n in sorted(mags):
                for tail_name, tail in (("eof", b""), ("crlf", b"\r\n\r\n"), ("record", good)):
                    if quick and tail_name == "crlf" and n > 8:
                        continue
                    h, data = rec(-n)
                    jobs.append((wp, "warc-negative-length-%d-hdr%d-%s" % (n, len(h), tail_name), data + tail, None, b"Content-Length"))
    # cache around `cat` with the whole line as key reproduces its input; empty lines (an empty answer is a valid cached value),
    # first, recurring, only
    cache = tr.Tool("cache", ["cat"], b"", kind="wrapper", label="cache")
    texts = [b"\nA\n\nB\n\nC\n", b"\n", b"\n\n\n", b"\nA\n", b"A\n\n\nA\n\n", b"\n" * 50 + b"x\n" + b"\n" * 50, b"\r\n\n\r\n\n", b" \n\n \n\n"]
    for i in range(4 if quick else 60):
        alphabet = [b"", b"", b"a", b"b", b" ", b"\t", b"a\tb"]
        texts.append(b"".join(rng.choice(alphabet) + b"\n" for _ in range(rng.randrange(1, 40))))
    for i, text in enumerate(texts):
        jobs.append((cache, "cache-empty-lines-%d" % i, text, text, None))
        # key = first field: a line gets the answer of the first line with the same first field
        first = {}
        exp = b"".join(first.setdefault(l.split(b"\t")[0], l) + b"\n" for l in text.split(b"\n")[:-1])
        jobs.append((tr.Tool("cache", ["-k", "1", "cat"], b"", kind="wrapper", label="cache -k 1"), "cache-empty-keys-%d" % i, text, exp, None))

    def work(j):
        t, name, data, expect, diag = j
        with tr.Scratch(SCRATCH, t) as w:
            rc, out, err = tr.run(t.argv(bindir_san, w, hx), data, timeout=20, env=dict(os.environ, **SAN_ENV), cwd=w)
            return j, rc, out, err

    with ThreadPoolExecutor(WORKERS) as ex:
        results = list(ex.map(work, jobs))
    for (t, name, data, expect, diag), rc, out, err in results:
        kind, detail = classify(rc, err)
        c.count(("verdict", t.label, name), bucket="verdict/%s/%s" % (t.name, kind))
        rep = {"tool": t.label, "executable": t.name, "argv": t.argv("$BIN", "$W", "$HX"), "stream": name, "stdin_hex": hexs(data), "status": rc,
               "stdout_hex": hexs(out[:400]), "report": detail, "stderr_tail": err.decode("utf-8", "replace")[-400:],
               "how": "build flavour '%s'; %s < stdin" % (SAN, " ".join(t.argv("$BIN", "$W", "$HX")))}
        if kind != "ok":
            c.violation("%s: %s on '%s': %s" % (kind, t.name, name, detail), rep)
        elif diag is not None and (rc == 0 or diag not in err):
            rep["report"] = "negative Content-Length not diagnosed"
            c.violation("malformed-input-not-diagnosed: %s on '%s' (%r...): status %s, stderr %r -- a negative Content-Length must stop the tool with a message naming it" % (
                t.name, name, data[:60], rc, err.decode("utf-8", "replace")[-120:]), rep)
        elif expect is not None and (rc != 0 or out != expect):
            rep["report"] = "output is not what the wrapped identity child defines"
            c.violation("garbage-output: %s on %r: status %s, stdout %r, expected %r" % (" ".join([t.name] + t.args), data[:60], rc, out[:60], expect[:60]), rep)


# ---------------------------------------------------------------------------
# substitute: structured lines with 4..8 tab-separated fields; every output line may only contain fields of its own
# input line and values remembered from earlier lines with the same key

def part_substitute(c, bindir_san, hx):
    rng = c.rng
    cases = []
    for i in range(40 if c.tier == "quick" else 400):
        nkeys = rng.randrange(1, 4)
        lines = []
        for ln in range(rng.randrange(2, 9)):
            nf = rng.choice([4, 5, 6, 6, 6, 7, 8])
            k = rng.randrange(nkeys)
            f = ["s%d_%d" % (ln, j) for j in range(nf)]
            if nf > 2:
                f[2] = "K%d" % k
            if nf > 3:
                f[3] = "k%d" % k
            if nf > 4:
                f[4] = "V%d_%d" % (ln, k)
            if nf > 5:
                f[5] = "TAIL-OF-LINE-%d" % ln
            lines.append("\t".join(f))
        cases.append(("\n".join(lines) + "\n").encode())
    # the layout that shows a dangling tail: a 6-field line, then a 5-field line with the same key; also with a megabyte in between
    cases.append(b"s1\ts2\tK1\tK2\tV1\tTAIL-OF-LINE-ONE\nt1\tt2\tK1\tK2\tV2\n")
    filler = b"".join(b"fa-%d\tfb-%d\tkey-%d\tkey2-%d\tvalue-%d-xxxxxxxxxxxxxxxx\tend\n" % (i, i, i, i, i) for i in range(30000))
    cases.append(b"s1\ts2\tK1\tK2\tV1\tTAIL-OF-LINE-ONE\n" + filler + b"t1\tt2\tK1\tK2\tV2\n")
    jobs = [(data, mode) for data in cases for mode in ("pipe", "file")]

    def work(j):
        data, mode = j
        t = tr.Tool("substitute", [], data)
        with tr.Scratch(SCRATCH, t) as w:
            env = dict(os.environ, **SAN_ENV)
            if mode == "file":
                sp = os.path.join(w, "stdin.bin")
                open(sp, "wb").write(data)
                with open(sp, "rb") as f:
                    rc, out, err = tr.run(t.argv(bindir_san, w, hx), timeout=TOOL_TIMEOUT, env=env, cwd=w, stdin_file=f)
            else:
                rc, out, err = tr.run(t.argv(bindir_san, w, hx), data, timeout=TOOL_TIMEOUT, env=env, cwd=w)
            return j, rc, out, err

    with ThreadPoolExecutor(WORKERS) as ex:
        results = list(ex.map(work, jobs))
    for (data, mode), rc, out, err in results:
        kind, detail = classify(rc, err)
        c.count(("substitute", data[:64], mode), bucket="substitute/%s/%s" % (mode, kind if kind != "ok" else ("accepted" if rc == 0 else "rejected")))
        small = len(data) <= 4096
        rep = {"tool": "substitute", "executable": "substitute", "argv": ["$BIN/substitute"], "stdin_hex": hexs(data) if small else None,
               "stdin_desc": None if small else "6-field line, 30000 filler lines, 5-field line with the first line's key (see part_substitute)", "stdin_backing": mode,
               "status": rc, "report": detail, "stream": "substitute-structured"}
        if kind != "ok":
            c.violation("%s: substitute on structured field counts (%s): %s" % (kind, mode, detail), rep)
            continue
        if rc != 0:
            continue
        ins = data.split(b"\n")[:-1]
        outs_l = out.split(b"\n")[:-1]
        if len(ins) != len(outs_l):
            c.violation("substitute-output-lines: %d input lines, %d output lines" % (len(ins), len(outs_l)), rep)
            continue
        values = set()
        for li, lo in zip(ins, outs_l):
            allowed = set(li.split(b"\t")) | values | {b""}
            foreign = [f for f in lo.split(b"\t") if f not in allowed]
            if foreign:
                c.violation("substitute-foreign-bytes: output line %r contains %r, which is neither a field of its input line %r nor a remembered value" % (
                    lo[:80], foreign[0][:60], li[:80]), dict(rep, output_line=lo[:200].decode("latin1")))
                break
            f = li.split(b"\t")
            if len(f) > 4:
                values.add(f[4])


def main(argv):
    c = Check("C20", argv)
    ok, blog = build_repo(["all"])
    ok2, blog2 = build_repo(["all"], flavour=SAN)
    if not ok or not ok2:
        c.broken.append("build of the repo working tree failed: " + (blog if not ok else blog2)[-800:])
        return c.finish(rule="build failed")
    c.proofs(extra_trusted=["harness/hx_tostring.cc (footprint = sentinel scan of the destination; exact-size heap destinations under ASan)",
                            "AddressSanitizer / UBSan (bounds, overflow) / libstdc++ _GLIBCXX_ASSERTIONS of g++ 12 for the sampled part",
                            "double-conversion's digit generator (DoubleToAscii) is environment: its outputs enter the layout model as data and are checked against the stated ranges on every run"])
    drv, dlog = build_driver("C20")
    if drv is None:
        c.broken.append("extraction/driver build failed: " + dlog[-600:])
    kconst = {}
    phases = {}
    for name, fn in (("formatters+streams", lambda: part_formatters(c, drv, kconst)),
                     ("leaf parsers at a page end", lambda: part_leaf(c)),
                     ("file backings", lambda: part_backings(c, os.path.dirname(repo_bin("x", SAN)), os.path.dirname(hx_bin("x")))),
                     ("large records", lambda: part_large_records(c, os.path.dirname(repo_bin("x", SAN)), os.path.dirname(hx_bin("x")))),
                     ("known verdicts", lambda: part_verdicts(c, os.path.dirname(repo_bin("x", SAN)), os.path.dirname(hx_bin("x")))),
                     ("substitute structured", lambda: part_substitute(c, os.path.dirname(repo_bin("x", SAN)), os.path.dirname(hx_bin("x")))),
                     ("sanitizer sampling", lambda: part_tools(c, os.path.dirname(repo_bin("x", SAN)), os.path.dirname(hx_bin("x")), os.path.dirname(repo_bin("x")))),
                     ("sanitizer under faults", lambda: part_faults_sanitized(c, os.path.dirname(repo_bin("x", SAN)), os.path.dirname(hx_bin("x")))),
                     ("memcheck", lambda: part_valgrind(c, os.path.dirname(repo_bin("x")), os.path.dirname(hx_bin("x")))),
                     ("memcheck under faults", lambda: part_valgrind_faults(c, os.path.dirname(repo_bin("x")), os.path.dirname(hx_bin("x"))))):
        t0 = time.time()
        fn()
        phases[name] = round(time.time() - t0, 1)
    c.cov["phase_seconds"] = phases
    log("  phases: %s" % phases)
    if c.tier == "thorough":
        coqchk(c)
    shutil.rmtree(SCRATCH, ignore_errors=True)
    if os.environ.get("VERIF_DEBUG"):
        for what, obj, found in c.violations:
            log("  [debug] " + what[:260])
    c.cov["proved_part"] = "library helpers: every integer/pointer/bool value, every double/float the digit generator can deliver, every stream operation sequence (Coq theorems C20_*)"
    c.cov["sampled_part"] = "all 24 executables on malformed streams and option values under ASan+UBSan+_GLIBCXX_ASSERTIONS with timeouts: SAMPLING, not proof"
    return c.finish(
        level="proof",
        rule="PROVED (all values): formatter footprints <= ToStringBuf<T>::kBytes, stream cursor safety. CORRESPONDENCE: boundary + random values of every integer type, pointers, bools; doubles/floats at the decimal/exponential switch, denormals, extremes, random bit patterns, through the extracted model and the real ToString (text, footprint), again with exact-size heap destinations under ASan; stream scenarios placing each number at every distance 0..40 from the end of the 8 KiB buffer + random op sequences (writer chunk sizes and checksum compared). "
             "SAMPLED (labelled as such): every executable x {empty, NUL, ill-formed UTF-8 of every class, CR/LF, no final newline, megabyte lines, 100k empty lines, magic-number garbage, random bytes} + malformed base64 / WARC (incl. negative and huge Content-Length) / field lists / option values, under ASan+UBSan+libstdc++ assertions with a 30 s timeout; any sanitizer report, crash signal, undiagnosed abort or timeout is a violation with the input as replay. distinct = distinct cases",
        assumptions=["x86-64 build (SSE2 branch of integer_to_string.cc, 8-byte pointers)",
                     "DoubleToAscii delivers 1..17 (float: 1..9) decimal digits and a decimal point position in [-323, 309] (float: [-44, 39]); checked on every sampled value",
                     "sanitizer runs are sampling: out-of-bounds accesses, use-after-free or uninitialised reads in code paths not exercised by the generated inputs, and anything inside libstdc++/ICU/zlib/bzip2/liblzma, are outside the proof",
                     "uninitialised-value use is looked for with valgrind memcheck on the uninstrumented build, small inputs only (quick: every executable on its catalogue input + 15 stream classes + all option cases; thorough: every small stream)"])


if __name__ == "__main__":
    sys.exit(main(sys.argv[1:]))
