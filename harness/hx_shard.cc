// Harness for preprocess/shard_main.cc (C06): the real ParseArgs (output naming,
// option handling) and the real key hash HashCallback(RangeFields(line)).
//   H <fields> <delimhex> <linehex|->   -> OK <hash, decimal uint64>
//   N <arg> <arg> ...                   -> OK <namehex,namehex,...> <compression 0|1|2> | ERR
#include "hx_common.hh"
#define main shard_tool_main
#include "preprocess/shard_main.cc"
#undef main

int main() {
  std::string line;
  while (std::getline(std::cin, line)) {
    std::vector<std::string> t = hx::split_ws(line);
    if (t.empty()) { std::cout << "?\n"; continue; }
    try {
      if (t[0] == "H" && t.size() >= 3) {
        std::vector<preprocess::FieldRange> fields;
        preprocess::ParseFields(t[1].c_str(), fields);
        preprocess::DefragmentFields(fields);
        std::string d = hx::unhex(t[2]);
        std::string l = t.size() > 3 && t[3] != "-" ? hx::unhex(t[3]) : std::string();
        preprocess::HashCallback cb;
        preprocess::RangeFields(util::StringPiece(l.data(), l.size()), fields, d.empty() ? '\t' : d[0], cb);
        std::cout << "OK " << cb.Hash() << "\n";
      } else if (t[0] == "N") {
        std::vector<std::string> args(t.begin() + 1, t.end());
        std::vector<char *> argv;
        std::string prog = "shard";
        argv.push_back(&prog[0]);
        for (std::string &a : args) argv.push_back(&a[0]);
        argv.push_back(NULL);
        preprocess::Options options;
        preprocess::ParseArgs(int(argv.size() - 1), argv.data(), options);
        std::cout << "OK ";
        for (size_t i = 0; i < options.outputs.size(); ++i) {
          if (i) std::cout << ',';
          std::cout << hx::hex(options.outputs[i]);
        }
        if (options.outputs.empty()) std::cout << '-';
        std::cout << ' ' << int(options.compression) << "\n";
      } else {
        std::cout << "?\n";
      }
    } catch (const std::exception &e) {
      std::cout << "ERR\n";
    }
  }
  return 0;
}
