// Correspondence harness for util/murmur_hash.cc and preprocess/fields.hh HashCallback:
// same line protocol as ocaml/C14_driver.ml (H, N, M, F, S), plus the native grid
//   hx_murmur GRID <maxlen> <seed> [<seed> ...]
// which hashes, for every length 0..maxlen and every start alignment 0..7, a string placed
// as close as possible (< 8 bytes of slack) to a PROT_NONE page, twice with different
// slack/prefix fill: an over-read either faults or changes the value between the fills.
#include "hx_common.hh"
#include "util/murmur_hash.hh"
#include "preprocess/fields.hh"
#include <cstring>
#include <cstdlib>
#include <csignal>
#include <unistd.h>
#include <sys/mman.h>

static volatile size_t cur_len = 0, cur_align = 0;
static void OnFault(int) {
  char msg[128];
  int n = snprintf(msg, sizeof(msg), "FAULT len=%zu align=%zu\n", (size_t)cur_len, (size_t)cur_align);
  if (write(1, msg, n)) {}
  _exit(3);
}

static inline unsigned char MasterByte(uint32_t &x) {
  x = (x * 1103515245u + 12345u) & 0x7fffffffu;
  return (unsigned char)((x >> 16) & 0xFF);
}

static int Grid(int argc, char **argv) {
  size_t maxlen = strtoul(argv[2], 0, 10);
  std::vector<uint64_t> seeds;
  for (int i = 3; i < argc; ++i) seeds.push_back(strtoull(argv[i], 0, 10));
  const size_t page = 4096;
  size_t pages = (maxlen + 16 + page - 1) / page + 1;
  char *region = (char *)mmap(0, (pages + 1) * page, PROT_READ | PROT_WRITE, MAP_PRIVATE | MAP_ANONYMOUS, -1, 0);
  if (region == MAP_FAILED) { std::cout << "GRID-ERROR mmap\n"; return 2; }
  if (mprotect(region + pages * page, page, PROT_NONE)) { std::cout << "GRID-ERROR mprotect\n"; return 2; }
  char *limit = region + pages * page;
  signal(SIGSEGV, OnFault);
  signal(SIGBUS, OnFault);
  std::vector<unsigned char> master(maxlen + 64);
  uint32_t x = 20240930u;
  for (size_t i = 0; i < master.size(); ++i) master[i] = MasterByte(x);
  for (size_t len = 0; len <= maxlen; ++len) {
    const unsigned char *content = &master[len % 64];
    for (size_t align = 0; align < 8; ++align) {
      cur_len = len; cur_align = align;
      size_t slack = ((size_t)(uintptr_t)limit - len - align) % 8;
      char *start = limit - slack - len;
      std::cout << "G " << len << " " << align;
      for (uint64_t seed : seeds) {
        uint64_t v[2], w[2];
        for (int fill = 0; fill < 2; ++fill) {
          memset(region, fill ? 0x55 : 0xAA, pages * page);
          memcpy(start, content, len);
          v[fill] = util::MurmurHash64A(start, len, seed);
          w[fill] = util::MurmurHashNative(start, len, seed);
        }
        if (v[0] != v[1] || w[0] != w[1]) std::cout << " OUTSIDE-BYTES-INFLUENCE";
        std::cout << " " << v[0] << " " << w[0];
      }
      std::cout << "\n";
    }
  }
  return 0;
}

static std::string Arg(const std::string &h) { return h == "-" ? std::string() : hx::unhex(h); }

int main(int argc, char **argv) {
  if (argc >= 4 && !strcmp(argv[1], "GRID")) return Grid(argc, argv);
  if (argc >= 2 && !strcmp(argv[1], "MASTER")) {   // print the master string used by GRID (for the check's reference)
    size_t maxlen = strtoul(argv[2], 0, 10);
    std::string m; uint32_t x = 20240930u;
    for (size_t i = 0; i < maxlen + 64; ++i) m.push_back((char)MasterByte(x));
    std::cout << hx::hex(m) << "\n";
    return 0;
  }
  std::string line;
  while (std::getline(std::cin, line)) {
    std::vector<std::string> t = hx::split_ws(line);
    if (t.empty()) { std::cout << "?\n"; continue; }
    if (t[0] == "C") {
      preprocess::HashCallback dflt;   // constants as compiled: the default seed of HashCallback, the native dispatch
      const char probe[] = "constants";
      std::cout << "shard_seed=" << dflt.Hash() << " native_is_64a=" << (util::MurmurHashNative(probe, 9, 7) == util::MurmurHash64A(probe, 9, 7) ? 1 : 0)
                << " default_seed_64a=" << (util::MurmurHash64A(probe, 9) == util::MurmurHash64A(probe, 9, 0) ? 0 : -1) << "\n";
    } else if ((t[0] == "H" || t[0] == "N") && t.size() == 3) {
      std::string raw = Arg(t[2]);
      char *buf = (char *)malloc(raw.size() ? raw.size() : 1);   // exact size: over-reads visible to ASan
      memcpy(buf, raw.data(), raw.size());
      uint64_t seed = strtoull(t[1].c_str(), 0, 10);
      uint64_t h = t[0] == "H" ? util::MurmurHash64A(buf, raw.size(), seed) : util::MurmurHashNative(buf, raw.size(), seed);
      std::cout << h << "\n";
      free(buf);
    } else if (t[0] == "B" && t.size() == 3) {
      std::string raw = Arg(t[2]);
      char *buf = (char *)malloc(raw.size() + 1);
      memcpy(buf + 1, raw.data(), raw.size());          // odd start address: 64B must not need alignment either
      std::cout << util::MurmurHash64B(buf + 1, raw.size(), strtoull(t[1].c_str(), 0, 10)) << "\n";
      free(buf);
    } else if (t[0] == "A" && t.size() == 4) {
      // the string placed at offset <align> of a heap block: start address = 16-aligned base + align
      size_t align = strtoul(t[1].c_str(), 0, 10) % 16;
      std::string raw = Arg(t[3]);
      char *buf = (char *)malloc(raw.size() + align + 1);
      memcpy(buf + align, raw.data(), raw.size());
      uint64_t seed = strtoull(t[2].c_str(), 0, 10);
      uint64_t a = util::MurmurHash64A(buf + align, raw.size(), seed), b = util::MurmurHashNative(buf + align, raw.size(), seed);
      if (a != b) std::cout << "NATIVE-DIFFERS "; 
      std::cout << a << "\n";
      free(buf);
    } else if (t[0] == "M" && t.size() == 4) {
      std::string raw = Arg(t[3]);
      std::cout << util::MurmurHash64A(raw.data(), strtoull(t[2].c_str(), 0, 10), strtoull(t[1].c_str(), 0, 10)) << "\n";
    } else if (t[0] == "F" && t.size() >= 2) {
      preprocess::HashCallback cb(strtoull(t[1].c_str(), 0, 10));
      for (size_t i = 2; i < t.size(); ++i) { std::string p = Arg(t[i]); cb(util::StringPiece(p.data(), p.size())); }
      std::cout << cb.Hash() << "\n";
    } else if (t[0] == "S" && t.size() >= 2) {
      preprocess::HashCallback cb;   // default seed, as in shard_main.cc
      for (size_t i = 2; i < t.size(); ++i) { std::string p = Arg(t[i]); cb(util::StringPiece(p.data(), p.size())); }
      uint64_t shard_count = strtoull(t[1].c_str(), 0, 10);
      std::cout << (cb.Hash() % shard_count) << "\n";
    } else {
      std::cout << "?\n";
    }
  }
  return 0;
}
