// Correspondence harness for util/probing_hash_table.hh (property C13):
// drives the real util::AutoProbing<Entry, util::IdentityHash> through a history and
// prints, after every operation, the answer and the complete state (buckets_, entries_,
// threshold_ and the whole bucket array RawBegin()..RawEnd(), or its digest).
// Same line protocol as ocaml/C13_driver.ml.
#include "hx_common.hh"
#include <malloc.h>
#include <errno.h>
#include <stdarg.h>
#include <sys/mman.h>
#include <sys/syscall.h>
#include <unistd.h>
#include <algorithm>
#include <cstddef>
#include <cstdlib>
#include <cstring>
#include <functional>
#include <set>
#include <map>
#include <vector>
#include <cassert>
#include <stdint.h>
#include "util/exception.hh"
#include "util/mmap.hh"
// the state compared with the model (entries_, threshold_, buckets_) is private
#define private public
#include "util/probing_hash_table.hh"
#undef private

// mremap defined in the harness executable: util/mmap.cc's HugeRealloc calls this one.  The k-th call of a run can be
// refused (EINVAL, what the source anticipates for huge pages) so that the ReplaceAndCopy fallback is exercised.
static unsigned long g_mremap_calls = 0, g_mremap_fail_at = 0, g_mremap_refused = 0;
extern "C" void *mremap(void *old_address, size_t old_size, size_t new_size, int flags, ...) {
  ++g_mremap_calls;
  if (g_mremap_fail_at && g_mremap_calls == g_mremap_fail_at) {
    ++g_mremap_refused;
    errno = EINVAL;
    return MAP_FAILED;
  }
  void *new_address = NULL;
  if (flags & MREMAP_FIXED) {
    va_list ap;
    va_start(ap, flags);
    new_address = va_arg(ap, void *);
    va_end(ap);
  }
  return (void *)syscall(SYS_mremap, old_address, old_size, new_size, flags, new_address);
}

namespace {

struct Entry16 {
  typedef uint64_t Key;
  uint64_t key;
  uint64_t value;
  uint64_t GetKey() const { return key; }
  void SetKey(uint64_t to) { key = to; }
  void SetValue(uint64_t v) { value = v; }
  uint64_t GetValue() const { return value; }
};

// the packed 12-byte layout of util::MutableVocabInternal
#pragma pack(push)
#pragma pack(4)
struct Entry12 {
  typedef uint64_t Key;
  uint64_t GetKey() const { return key; }
  void SetKey(uint64_t to) { key = to; }
  void SetValue(uint64_t v) { id = static_cast<uint32_t>(v); }
  uint64_t GetValue() const { return id; }
  uint64_t key;
  uint32_t id;
};
#pragma pack(pop)

const uint64_t P31 = 2147483647ULL;

template <class Table> void Dump(std::string &out, bool full, const Table &t) {
  out += "|";
  out += std::to_string(t.backend_.buckets_);
  out += ",";
  out += std::to_string(t.backend_.entries_);
  out += ",";
  out += std::to_string(t.threshold_);
  out += "|";
  if (full) {
    bool first = true;
    for (typename Table::ConstIterator i = t.RawBegin(); i != t.RawEnd(); ++i) {
      if (!first) out += ",";
      first = false;
      out += std::to_string(i->GetKey());
      out += ":";
      out += std::to_string(i->GetValue());
    }
  } else {
    uint64_t h = 0;
    for (typename Table::ConstIterator i = t.RawBegin(); i != t.RawEnd(); ++i) {
      h = (h * 1000003ULL + (i->GetKey() % P31) * 7 + (i->GetValue() % P31) + 1) % P31;
    }
    out += std::to_string(h);
  }
}

bool ParseKV(const std::string &s, uint64_t &k, uint64_t &v) {
  size_t c = s.find(',');
  if (c == std::string::npos) return false;
  k = strtoull(s.substr(0, c).c_str(), NULL, 10);
  v = strtoull(s.substr(c + 1).c_str(), NULL, 10);
  return true;
}

template <class Entry> void RunHistory(const std::vector<std::string> &t, bool full) {
  typedef util::AutoProbing<Entry, util::IdentityHash> Table;
  std::string out;
  Table *table = t[1] == "-" ? new Table() : new Table(strtoull(t[1].c_str(), NULL, 10));
  out += "init";
  Dump(out, full, *table);
  for (size_t n = 2; n < t.size(); ++n) {
    const std::string &tok = t[n];
    std::string body = tok.substr(1);
    uint64_t k = 0, v = 0;
    try {
      if (tok[0] == 'F') {
        ParseKV(body, k, v);
        Entry e;
        std::memset(&e, 0, sizeof(e));
        e.SetKey(k);
        e.SetValue(v);
        typename Table::MutableIterator it;
        bool found = table->FindOrInsert(e, it);
        out += found ? " F1@" : " F0@";
        out += std::to_string(it - table->RawBegin());
        out += "=";
        out += std::to_string(it->GetValue());
      } else if (tok[0] == 'I') {
        ParseKV(body, k, v);
        Entry e;
        std::memset(&e, 0, sizeof(e));
        e.SetKey(k);
        e.SetValue(v);
        typename Table::MutableIterator it = table->Insert(e);
        out += " I@";
        out += std::to_string(it - table->RawBegin());
      } else if (tok[0] == 'L') {
        k = strtoull(body.c_str(), NULL, 10);
        typename Table::ConstIterator it;
        if (table->Find(k, it)) {
          out += " L@";
          out += std::to_string(it - table->RawBegin());
          out += "=";
          out += std::to_string(it->GetValue());
        } else {
          out += " L-";
        }
      } else if (tok[0] == 'U') {
        ParseKV(body, k, v);
        typename Table::MutableIterator it;
        if (table->UnsafeMutableFind(k, it)) {
          it->SetValue(v);
          out += " U@";
          out += std::to_string(it - table->RawBegin());
        } else {
          out += " U-";
        }
      } else {
        out += " ?";
      }
    } catch (const util::ProbingSizeException &e) {
      out += " ERR:full";
      break;
    } catch (const std::exception &e) {
      out += " ERR:exception";
      break;
    }
    Dump(out, full, *table);
  }
  delete table;
  std::cout << out << "\n";
}

// --- set-semantics mode (thorough tier): N pseudo-random keys from a small LCG, the real table
// against std::map; prints the first disagreement or OK with the final bucket count.
struct Lcg {
  uint64_t s;
  uint64_t Next() { s = s * 6364136223846793005ULL + 1442695040888963407ULL; return s; }
};

template <class Entry> void RunSet(uint64_t seed, uint64_t count, uint64_t universe_bits, uint64_t stride_bits, uint64_t fail_at, uint64_t invalid) {
  typedef util::AutoProbing<Entry, util::IdentityHash> Table;
  g_mremap_calls = 0;
  g_mremap_refused = 0;
  g_mremap_fail_at = fail_at;
  // invalid = 0 is the default empty marker; a non-zero marker (as in probing_hash_table_test) takes the Clear() /
  // clear_new = true paths, and 0 becomes an ordinary key
  Table table(5, invalid);
  std::map<uint64_t, uint64_t> ref;
  Lcg g = {seed};
  for (uint64_t n = 0; n < count; ++n) {
    uint64_t r = g.Next();
    // keys collide modulo every table size up to 2^stride_bits: low bits drawn from a tiny range
    uint64_t k = (((r >> 20) & ((1ULL << universe_bits) - 1)) << stride_bits) | ((r >> 8) & 3);
    if (k == invalid) k = 1;
    if (invalid && (r & 0xff00000000ULL) == 0) k = 0;   // with a non-zero marker key 0 is a legitimate key: use it often
    unsigned what = (r >> 4) & 7;
    if (what < 5) {
      Entry e;
      std::memset(&e, 0, sizeof(e));
      e.SetKey(k);
      e.SetValue(n & 0xffffffffULL);
      typename Table::MutableIterator it;
      bool found = table.FindOrInsert(e, it);
      std::map<uint64_t, uint64_t>::iterator f = ref.find(k);
      bool expect = f != ref.end();
      if (!expect) ref[k] = n & 0xffffffffULL;
      if (found != expect || it->GetKey() != k || it->GetValue() != ref[k]) {
        std::cout << "BAD op " << n << " FindOrInsert key " << k << " found=" << found << " expected=" << expect
                  << " value=" << it->GetValue() << " expected_value=" << ref[k] << "\n";
        return;
      }
    } else {
      typename Table::ConstIterator it;
      bool found = table.Find(k, it);
      std::map<uint64_t, uint64_t>::iterator f = ref.find(k);
      bool expect = f != ref.end();
      if (found != expect || (found && (it->GetKey() != k || it->GetValue() != f->second))) {
        std::cout << "BAD op " << n << " Find key " << k << " found=" << found << " expected=" << expect << "\n";
        return;
      }
    }
    if (table.Size() != ref.size()) {
      std::cout << "BAD op " << n << " Size " << table.Size() << " expected " << ref.size() << "\n";
      return;
    }
  }
  // every stored key is found with its value; CheckConsistency passes
  for (std::map<uint64_t, uint64_t>::const_iterator i = ref.begin(); i != ref.end(); ++i) {
    typename Table::ConstIterator it;
    if (!table.Find(i->first, it) || it->GetValue() != i->second) {
      std::cout << "BAD final Find key " << i->first << "\n";
      return;
    }
  }
  try {
    table.backend_.CheckConsistency();
  } catch (const std::exception &e) {
    std::cout << "BAD CheckConsistency " << e.what() << "\n";
    return;
  }
  g_mremap_fail_at = 0;
  std::cout << "OK " << table.backend_.buckets_ << " " << ref.size() << " mremap_calls=" << g_mremap_calls << " refused=" << g_mremap_refused << "\n";
}

}  // namespace

int main() {
  // every malloc'd / realloc'd / freed byte is garbage unless the code under test zeroes it itself:
  // makes "HugeRealloc zero-fills the new half" (the model's environment assumption) deterministic to test
  mallopt(M_PERTURB, 0x5a);
  std::string line;
  while (std::getline(std::cin, line)) {
    std::vector<std::string> t = hx::split_ws(line);
    if (t.empty()) { std::cout << "?\n"; continue; }
    if (t[0] == "S" && t.size() == 2) {
      util::AutoProbing<Entry16, util::IdentityHash> table(strtoull(t[1].c_str(), NULL, 10));
      std::cout << "S " << table.backend_.buckets_ << " " << table.threshold_ << "\n";
    } else if (t[0].size() == 4 && t[0][0] == 'H' && t.size() >= 2) {
      bool full = t[0][3] == 'f';
      if (t[0].substr(1, 2) == "12") RunHistory<Entry12>(t, full);
      else RunHistory<Entry16>(t, full);
    } else if (t[0] == "T" && (t.size() == 6 || t.size() == 8)) {
      uint64_t seed = strtoull(t[2].c_str(), NULL, 10), count = strtoull(t[3].c_str(), NULL, 10);
      uint64_t ub = strtoull(t[4].c_str(), NULL, 10), sb = strtoull(t[5].c_str(), NULL, 10);
      uint64_t fail_at = t.size() == 8 ? strtoull(t[6].c_str(), NULL, 10) : 0;
      uint64_t invalid = t.size() == 8 ? (t[7] == "max" ? ~0ULL : strtoull(t[7].c_str(), NULL, 10)) : 0;
      if (t[1] == "12") RunSet<Entry12>(seed, count, ub, sb, fail_at, invalid);
      else RunSet<Entry16>(seed, count, ub, sb, fail_at, invalid);
    } else {
      std::cout << "?\n";
    }
    std::cout.flush();
  }
  return 0;
}
