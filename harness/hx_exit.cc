// Correspondence harness for C11 (same line protocol as ocaml/C11_driver.ml):
//   T <chunk> <fin-hex|-> | <outcome>...   a real mini filter tool (util::PartialRead loop -> util::FileStream on fd 1,
//                                          util::scoped_fd on fd 0) run in a forked child whose read/write/fsync/close
//                                          are answered by the scripted outcomes: o:<ret>:<hex> | e:<errno>
//                                          prints "<status> <event>;..." with event = op fd req ret errno datahex
//   ROE|ROT <amount> | <outcome>...        util::ReadOrEOF / util::ReadOrThrow on fd 0 under scripted outcomes; prints status, events, R:<hex of the result>
//   WAIT exit:<c> | sig:<s>                forks a child ending that way, prints the value of the real preprocess::Wait
//   CONST                                  errno / signal numbers the code was compiled with
#include "hx_common.hh"
#include "preprocess/captive_child.hh"
#include "util/file.hh"
#include "util/file_stream.hh"
#include "util/string_piece.hh"

#include <cerrno>
#include <csignal>
#include <cstdlib>
#include <cstring>
#include <fcntl.h>
#include <sys/resource.h>
#include <sys/syscall.h>
#include <sys/wait.h>
#include <unistd.h>

namespace {
struct Outcome { bool ok; long n; std::string data; int err; };
std::vector<Outcome> g_oracle;
size_t g_next = 0;
volatile bool g_active = false;
int g_trace_fd = -1;

void Emit(const char *op, int fd, long req, long ret, int err, const std::string &data) {
  std::ostringstream s;
  s << op << ' ' << fd << ' ' << req << ' ' << ret << ' ' << (ret < 0 ? err : 0) << ' ' << (data.empty() ? std::string("-") : hx::hex(data)) << ';';
  std::string t = s.str();
  syscall(SYS_write, g_trace_fd, t.data(), t.size());
}

// next scripted outcome; a perfect OS once the script is exhausted
Outcome Next(const char *op, long req) {
  if (g_next < g_oracle.size()) return g_oracle[g_next++];
  Outcome o; o.ok = true; o.err = 0;
  o.n = (!strcmp(op, "write")) ? req : 0;
  return o;
}
}  // namespace

extern "C" {
ssize_t read(int fd, void *buf, size_t n) {
  if (!g_active) return syscall(SYS_read, fd, buf, n);
  Outcome o = Next("read", (long)n);
  if (!o.ok) { Emit("read", fd, (long)n, -1, o.err, ""); errno = o.err; return -1; }
  size_t k = std::min<size_t>(o.data.size(), n);
  memcpy(buf, o.data.data(), k);
  Emit("read", fd, (long)n, o.n, 0, "");
  return o.n;
}
ssize_t write(int fd, const void *buf, size_t n) {
  if (!g_active || fd == 2) return syscall(SYS_write, fd, buf, n);
  Outcome o = Next("write", (long)n);
  std::string offered(static_cast<const char*>(buf), n);
  if (!o.ok) { Emit("write", fd, (long)n, -1, o.err, offered); errno = o.err; return -1; }
  Emit("write", fd, (long)n, o.n, 0, offered);
  return o.n;
}
int fsync(int fd) {
  if (!g_active) return (int)syscall(SYS_fsync, fd);
  Outcome o = Next("fsync", 0);
  if (!o.ok) { Emit("fsync", fd, 0, -1, o.err, ""); errno = o.err; return -1; }
  Emit("fsync", fd, 0, 0, 0, "");
  return 0;
}
int close(int fd) {
  if (!g_active || fd == g_trace_fd) return (int)syscall(SYS_close, fd);
  Outcome o = Next("close", 0);
  if (!o.ok) { Emit("close", fd, 0, -1, o.err, ""); errno = o.err; return -1; }
  Emit("close", fd, 0, 0, 0, "");
  return 0;
}
}

namespace {
int MiniTool(size_t chunk, const std::string &fin) {
  util::scoped_fd in(0);
  util::FileStream out(1);
  std::vector<char> buf(chunk ? chunk : 1);
  while (true) {
    std::size_t n = util::PartialRead(0, &buf[0], chunk);
    if (!n) break;
    out << util::StringPiece(&buf[0], n);
  }
  out << fin;
  return 0;
}

std::string StatusString(int st) {
  std::ostringstream s;
  if (WIFEXITED(st)) s << "exit:" << WEXITSTATUS(st);
  else if (WIFSIGNALED(st)) s << "sig:" << WTERMSIG(st);
  else s << "other:" << st;
  return s.str();
}

void RunTool(const std::vector<std::string> &t) {
  size_t chunk = std::strtoul(t[1].c_str(), NULL, 10);
  std::string fin = t[2] == "-" ? std::string() : hx::unhex(t[2]);
  g_oracle.clear();
  g_next = 0;
  for (size_t i = 4; i < t.size(); ++i) {
    Outcome o; o.err = 0; o.n = 0; o.ok = t[i][0] == 'o';
    if (o.ok) {
      size_t c = t[i].find(':', 2);
      o.n = std::strtol(t[i].substr(2, c - 2).c_str(), NULL, 10);
      o.data = hx::unhex(t[i].substr(c + 1));
    } else {
      o.err = std::atoi(t[i].c_str() + 2);
    }
    g_oracle.push_back(o);
  }
  int p[2];
  if (pipe(p)) { std::cout << "pipe-failed\n"; return; }
  std::cout.flush();
  pid_t pid = fork();
  if (pid == 0) {
    syscall(SYS_close, p[0]);
    int dn = open("/dev/null", O_WRONLY);
    dup2(dn, 2);
    struct rlimit rl = {0, 0};
    setrlimit(RLIMIT_CORE, &rl);
    g_trace_fd = p[1];
    g_active = true;
    int rc = MiniTool(chunk, fin);   // an escaping exception => std::terminate => abort, as in the tools
    g_active = false;
    _exit(rc);
  }
  syscall(SYS_close, p[1]);
  std::string trace;
  char buf[4096];
  ssize_t n;
  while ((n = syscall(SYS_read, p[0], buf, sizeof buf)) > 0) trace.append(buf, n);
  syscall(SYS_close, p[0]);
  int st = 0;
  waitpid(pid, &st, 0);
  std::cout << StatusString(st) << ' ' << trace << "\n";
}

// ROE / ROT <amount> | outcomes : util::ReadOrEOF / util::ReadOrThrow on fd 0 under the scripted oracle
void RunReadLoop(const std::vector<std::string> &t) {
  bool eof_ok = t[0] == "ROE";
  size_t amount = std::strtoul(t[1].c_str(), NULL, 10);
  g_oracle.clear();
  g_next = 0;
  for (size_t i = 3; i < t.size(); ++i) {
    Outcome o; o.err = 0; o.n = 0; o.ok = t[i][0] == 'o';
    if (o.ok) {
      size_t c = t[i].find(':', 2);
      o.n = std::strtol(t[i].substr(2, c - 2).c_str(), NULL, 10);
      o.data = hx::unhex(t[i].substr(c + 1));
    } else {
      o.err = std::atoi(t[i].c_str() + 2);
    }
    g_oracle.push_back(o);
  }
  int p[2];
  if (pipe(p)) { std::cout << "pipe-failed\n"; return; }
  std::cout.flush();
  pid_t pid = fork();
  if (pid == 0) {
    syscall(SYS_close, p[0]);
    int dn = open("/dev/null", O_WRONLY);
    dup2(dn, 2);
    struct rlimit rl = {0, 0};
    setrlimit(RLIMIT_CORE, &rl);
    g_trace_fd = p[1];
    g_active = true;
    std::vector<char> buf(amount + 1);
    std::size_t got = amount;
    if (eof_ok) got = util::ReadOrEOF(0, &buf[0], amount);
    else util::ReadOrThrow(0, &buf[0], amount);
    g_active = false;
    std::string tail = " R:" + hx::hex(&buf[0], got);
    syscall(SYS_write, p[1], tail.data(), tail.size());
    _exit(0);
  }
  syscall(SYS_close, p[1]);
  std::string trace;
  char buf[4096];
  ssize_t n;
  while ((n = syscall(SYS_read, p[0], buf, sizeof buf)) > 0) trace.append(buf, n);
  syscall(SYS_close, p[0]);
  int st = 0;
  waitpid(pid, &st, 0);
  std::cout << StatusString(st) << ' ' << trace << "\n";
}

void RunWait(const std::string &term) {
  std::cout.flush();
  pid_t pid = fork();
  if (pid == 0) {
    if (!term.compare(0, 5, "exit:")) _exit(std::atoi(term.c_str() + 5));
    int s = std::atoi(term.c_str() + 4);
    struct rlimit rl = {0, 0};
    setrlimit(RLIMIT_CORE, &rl);
    signal(s, SIG_DFL);
    kill(getpid(), s);
    _exit(99);
  }
  std::cout << preprocess::Wait(pid) << "\n";
}
}  // namespace

int main() {
  std::string line;
  while (std::getline(std::cin, line)) {
    std::vector<std::string> t = hx::split_ws(line);
    if (t.empty()) { std::cout << "?\n"; continue; }
    if (t[0] == "T" && t.size() >= 4) RunTool(t);
    else if ((t[0] == "ROE" || t[0] == "ROT") && t.size() >= 3) RunReadLoop(t);
    else if (t[0] == "WAIT" && t.size() == 2) RunWait(t[1]);
    else if (t[0] == "CONST") {
      std::cout << "EINTR=" << EINTR << " EIO=" << EIO << " EAGAIN=" << EAGAIN << " EISDIR=" << EISDIR << " EINVAL=" << EINVAL
                << " EFBIG=" << EFBIG << " ENOSPC=" << ENOSPC << " EROFS=" << EROFS << " EPIPE=" << EPIPE << " ENOTSUP=" << ENOTSUP
                << " SIGABRT=" << SIGABRT << " SIGPIPE=" << SIGPIPE << " kBufferSize=" << util::FileStream(dup(1)).kBufferSize << "\n";
    } else std::cout << "?\n";
  }
  return 0;
}
