// C16 harness: drives the REAL util::UnboundedSingleQueue, util::PCQueue and
// util::ThreadedBufferedStream (BlockQueue/Lease) templates under a deterministic
// scheduler.  The code under test calls the weak PREPROCESS_VERIF hooks
// (util/verif_hooks.hh); this file defines them: every hook is a scheduling
// point at which the calling thread parks until the scheduler picks it.  Only
// one thread runs at a time, so an execution is fully determined by the
// sequence of thread choices ("schedule").
//
// One scenario per input line (key=value tokens), e.g.
//   kind=usq gran=fine mode=enum limit=20000 n=3 want=3 pre=0
//   kind=pcq gran=sem  mode=enum limit=20000 cap=2 prod=2,1 cons=1,2
//   kind=ring gran=sem mode=rand seed=7 runs=50 writes=100,8192,20000
// Output per scenario:  "S <line>" header, one "x ..." line per execution,
// "E <count> [DEADLOCK]" footer.  ocaml/C16_driver.ml prints the same from the
// extracted Coq transition systems.
#include "hx_common.hh"
#include "util/pcqueue.hh"
#include "util/threaded_buffered_stream.hh"

#include <chrono>
#include <condition_variable>
#include <new>
#include <map>
#include <mutex>
#include <thread>
#include <memory>
#include <functional>
#include <signal.h>
#include <pthread.h>
#include <sys/wait.h>
#include <unistd.h>

namespace {

enum Kind { K_BEGIN, K_YIELD, K_WAIT, K_POST, K_LOCK, K_UNLOCK, K_SPAWN, K_JOIN, K_END };

struct Pending {
  Kind kind;
  void *obj;
  std::string tag;
};

struct Th {
  bool parked = false;
  bool done = false;
  bool harness = true;
  Pending pend;
  void *announced = 0;   // mutex named by the last lock hook, not yet checked against the real lock
  int really = -1;       // id of a mutex found really held instead of the announced one
};

struct Step {
  int tid;
  std::string tag;
  unsigned mask;
};

struct Sched {
  std::mutex mu;
  std::condition_variable cv;
  bool active = false;
  bool fine = false;
  std::vector<Th> th;
  int running = -1;   // thread allowed to run
  int nrunning = 0;   // threads currently executing code
  int expected = 0;   // threads that must have registered
  std::vector<void *> sems;
  std::vector<long> count;
  std::map<void *, int> mutex_id;
  std::vector<bool> held;
  std::vector<int> owner;
  std::string anomaly;   // e.g. a lock_guard that does not hold the mutex its hook names
  std::vector<Step> trace;

  void reset(bool f) {
    th.clear(); running = -1; nrunning = 0; expected = 0;
    sems.clear(); count.clear(); mutex_id.clear(); held.clear(); owner.clear(); anomaly.clear(); trace.clear();
    fine = f;
  }
  int sem_index(void *s) {
    for (size_t i = 0; i < sems.size(); ++i) if (sems[i] == s) return (int)i;
    return -1;
  }
  int mutex_index(void *m) {
    std::map<void *, int>::iterator i = mutex_id.find(m);
    if (i != mutex_id.end()) return i->second;
    int id = (int)mutex_id.size();
    mutex_id[m] = id;
    held.push_back(false);
    owner.push_back(-1);
    return id;
  }
};

Sched G;
thread_local int tls_tid = -1;

// Park the calling managed thread at a scheduling point; returns when scheduled.
void park(Kind kind, void *obj, const std::string &tag) {
  int t = tls_tid;
  std::unique_lock<std::mutex> lk(G.mu);
  Th &me = G.th[t];
  me.pend.kind = kind; me.pend.obj = obj; me.pend.tag = tag;
  me.parked = true;
  --G.nrunning;
  G.cv.notify_all();
  G.cv.wait(lk, [t] { return G.running == t; });
  G.running = -1;
  G.th[t].parked = false;
  G.cv.notify_all();
}

std::string sem_tag(const char *op, void *s) {
  // caller holds no lock; sems only changes in sem_init (before threads start / in a running thread)
  std::lock_guard<std::mutex> lk(G.mu);
  return std::string(op) + std::to_string(G.sem_index(s));
}

}  // namespace

extern "C" {
void preprocess_verif_sem_init(void *sem, unsigned int value) {
  if (!G.active) return;
  std::lock_guard<std::mutex> lk(G.mu);
  // a new semaphore object may reuse the address of a destroyed one
  int i = G.sem_index(sem);
  if (i >= 0) { G.count[i] = value; return; }
  G.sems.push_back(sem);
  G.count.push_back(value);
}
void preprocess_verif_sem_wait(void *sem) {
  if (!G.active) return;
  if (tls_tid < 0) { std::lock_guard<std::mutex> lk(G.mu); --G.count[G.sem_index(sem)]; return; }
  park(K_WAIT, sem, sem_tag("W", sem));
}
void preprocess_verif_sem_post(void *sem) {
  if (!G.active) return;
  if (tls_tid < 0) { std::lock_guard<std::mutex> lk(G.mu); ++G.count[G.sem_index(sem)]; return; }
  park(K_POST, sem, sem_tag("P", sem));
}
void preprocess_verif_sem_posted(void *) {
  if (!G.active || tls_tid < 0 || !G.fine) return;
  park(K_YIELD, 0, "yposted");
}
void preprocess_verif_mutex_lock(void *m) {
  if (!G.active || tls_tid < 0 || !G.fine) return;
  int id;
  { std::lock_guard<std::mutex> lk(G.mu); id = G.mutex_index(m); }
  park(K_LOCK, m, "L" + std::to_string(id));
  { std::lock_guard<std::mutex> lk(G.mu); G.owner[id] = tls_tid; G.th[tls_tid].announced = m; }
}
void preprocess_verif_mutex_unlock(void *m) {
  if (!G.active || tls_tid < 0 || !G.fine) return;
  int id;
  // the real unlock has already happened (scope end): the mutex is free from now on, and this is a
  // plain scheduling point, so that code placed between the unlock and the post can be interleaved
  {
    std::lock_guard<std::mutex> lk(G.mu);
    id = G.mutex_index(m); G.held[id] = false; G.owner[id] = -1;
    Th &me = G.th[tls_tid];
    me.announced = 0;
    if (me.really >= 0) { G.held[me.really] = false; G.owner[me.really] = -1; me.really = -1; }
  }
  park(K_YIELD, m, "U" + std::to_string(id));
}
// First scheduling point inside a critical section: does the real lock_guard hold the mutex the lock hook
// named?  (All other managed threads are parked, so a mutex that is free in the simulation must be free for
// real; glibc's try_lock on a mutex owned by the caller fails with EBUSY.)  If not, the simulation follows the
// REAL locks from here on, so that the consequences (two threads in one critical section) are executed.
void check_real_lock() {
  std::lock_guard<std::mutex> lk(G.mu);
  Th &me = G.th[tls_tid];
  if (!me.announced) return;
  std::mutex *named = static_cast<std::mutex *>(me.announced);
  int id = G.mutex_index(me.announced);
  me.announced = 0;
  if (!named->try_lock()) return;           // held, as announced
  named->unlock();
  G.anomaly += " LOCK-MISMATCH:t" + std::to_string(tls_tid) + "/L" + std::to_string(id);
  G.held[id] = false; G.owner[id] = -1;
  for (std::map<void *, int>::iterator i = G.mutex_id.begin(); i != G.mutex_id.end(); ++i) {
    if (G.held[i->second]) continue;
    std::mutex *other = static_cast<std::mutex *>(i->first);
    if (other->try_lock()) { other->unlock(); continue; }
    G.held[i->second] = true; G.owner[i->second] = tls_tid; me.really = i->second;
  }
}

// An exception left a critical section: the lock_guard released the real mutex without passing the unlock hook.
void harness_unwound() {
  if (!G.active || tls_tid < 0 || !G.fine) return;
  std::lock_guard<std::mutex> lk(G.mu);
  Th &me = G.th[tls_tid];
  me.announced = 0; me.really = -1;
  for (std::map<void *, int>::iterator i = G.mutex_id.begin(); i != G.mutex_id.end(); ++i) {
    if (!G.held[i->second] || G.owner[i->second] != tls_tid) continue;
    std::mutex *mx = static_cast<std::mutex *>(i->first);
    if (mx->try_lock()) { mx->unlock(); G.held[i->second] = false; G.owner[i->second] = -1; }
  }
}

void preprocess_verif_yield(const char *where) {
  if (!G.active || tls_tid < 0 || !G.fine) return;
  check_real_lock();
  // tag = last component of the name
  const char *dot = strrchr(where, '.');
  park(K_YIELD, 0, std::string("y") + (dot ? dot + 1 : where));
}
void preprocess_verif_thread_spawn(void) {
  if (!G.active || tls_tid < 0) return;
  park(K_SPAWN, 0, "S");
}
void preprocess_verif_thread_begin(void) {
  if (!G.active) return;
  {
    std::lock_guard<std::mutex> lk(G.mu);
    tls_tid = (int)G.th.size();
    G.th.push_back(Th());
    G.th.back().harness = false;
    // counted in nrunning by the spawn effect
  }
  park(K_BEGIN, 0, "b");
}
void preprocess_verif_thread_end(void) {
  if (!G.active || tls_tid < 0) return;
  park(K_END, 0, "e");
}
void preprocess_verif_thread_join(void) {
  if (!G.active || tls_tid < 0) return;
  park(K_JOIN, 0, "J");
}
}

namespace {

// ---------------------------------------------------------------- items
thread_local bool tls_throw_copy = false;
struct Item {
  int v;
  Item() : v(-1) {}
  explicit Item(int x) : v(x) {}
  Item(const Item &o) : v(o.v) {}
  Item(Item &&o) : v(o.v) { o.v = -2; }
  // copy-assignment fails once on demand (like bad_alloc while copying a large string out of the queue)
  Item &operator=(const Item &o) { if (tls_throw_copy) { tls_throw_copy = false; throw std::bad_alloc(); } v = o.v; return *this; }
  Item &operator=(Item &&o) { v = o.v; o.v = -2; return *this; }
};

struct MockWriter {
  std::string *file;
  std::vector<size_t> *sizes;
  int *flushes;
  MockWriter(std::string *f, std::vector<size_t> *s, int *fl) : file(f), sizes(s), flushes(fl) {}
  void write(const void *data, size_t amount) {
    file->append(static_cast<const char *>(data), amount);
    sizes->push_back(amount);
  }
  void flush() { ++*flushes; }
};

uint64_t fnv(const std::string &s, uint64_t h = 14695981039346656037ULL) {
  for (size_t i = 0; i < s.size(); ++i) { h ^= (unsigned char)s[i]; h *= 1099511628211ULL; }
  return h;
}

struct Rng {
  uint64_t x;
  explicit Rng(uint64_t seed) : x(seed * 2654435769ULL + 88172645463325252ULL) { if (!x) x = 1; }
  uint64_t next() {
    x ^= x >> 12; x ^= x << 25; x ^= x >> 27;
    return x * 2685821657736338717ULL;
  }
};

unsigned char pattern(size_t write_index, size_t j) { return (unsigned char)((write_index * 31 + j * 7 + (j >> 8)) % 251); }

// ---------------------------------------------------------------- scenario
struct Scenario {
  std::string line;
  std::map<std::string, std::string> kv;
  std::string kind;
  bool fine;
  std::string mode;
  long limit;
  std::vector<std::string> strs(const std::string &k) const {
    std::vector<std::string> out;
    std::map<std::string, std::string>::const_iterator i = kv.find(k);
    if (i == kv.end() || i->second.empty()) return out;
    std::istringstream is(i->second);
    std::string t;
    while (std::getline(is, t, ',')) out.push_back(t);
    return out;
  }
  std::vector<long> list(const std::string &k) const {
    std::vector<long> out;
    std::map<std::string, std::string>::const_iterator i = kv.find(k);
    if (i == kv.end() || i->second.empty()) return out;
    std::istringstream is(i->second);
    std::string t;
    while (std::getline(is, t, ',')) out.push_back(atol(t.c_str()));
    return out;
  }
  long num(const std::string &k, long dflt) const {
    std::map<std::string, std::string>::const_iterator i = kv.find(k);
    return i == kv.end() ? dflt : atol(i->second.c_str());
  }
};

struct Result {
  std::string text;
};

// thread bodies get their id through this wrapper
void managed(int id, const std::function<void()> &body) {
  tls_tid = id;
  if (G.active) park(K_BEGIN, 0, "b");
  body();
  if (G.active) {
    std::lock_guard<std::mutex> lk(G.mu);
    G.th[id].done = true;
    --G.nrunning;
    G.cv.notify_all();
  }
}

std::string join_ints(const std::vector<int> &v) {
  std::string s;
  for (size_t i = 0; i < v.size(); ++i) { if (i) s += ","; s += std::to_string(v[i]); }
  return s;
}

// Runs one execution.  `choose(step_index, mask)` returns the thread to run.
// Returns false on deadlock.
bool run_once(const Scenario &sc, const std::function<int(size_t, unsigned)> &choose, std::string &result, bool scheduled) {
  G.reset(sc.fine);
  G.active = scheduled;
  std::vector<std::function<void()> > bodies;
  // objects under test
  std::unique_ptr<util::UnboundedSingleQueue<Item> > usq;
  std::unique_ptr<util::PCQueue<Item> > pcq;
  std::vector<std::vector<int> > got;
  std::string file;
  std::vector<size_t> wsizes;
  int flushes = 0;
  int thrown = 0;
  bool joined = false;

  if (sc.kind == "usq") {
    long n = sc.num("n", 0), want = sc.num("want", n), pre = sc.num("pre", 0);
    usq.reset(new util::UnboundedSingleQueue<Item>());
    // sequential prologue on the main thread (to get close to the page boundary)
    for (long i = 0; i < pre; ++i) {
      usq->Produce(Item((int)(1000000 + i)));
      Item o; usq->Consume(o);
      if (o.v != 1000000 + i) { result = "prologue-mismatch"; }
    }
    got.resize(1);
    util::UnboundedSingleQueue<Item> *q = usq.get();
    std::vector<int> *g = &got[0];
    bodies.push_back([q, n] { for (long i = 0; i < n; ++i) q->Produce(Item((int)i + 1)); });
    bodies.push_back([q, want, g] { for (long i = 0; i < want; ++i) { Item o; q->Consume(o); g->push_back(o.v); } });
  } else if (sc.kind == "pcq") {
    long cap = sc.num("cap", 1);
    std::vector<long> prod = sc.list("prod"), cons = sc.list("cons");
    pcq.reset(new util::PCQueue<Item>(cap));
    got.resize(cons.size());
    util::PCQueue<Item> *q = pcq.get();
    for (size_t p = 0; p < prod.size(); ++p) {
      long n = prod[p];
      if (sc.num("swap", 0)) {
        bodies.push_back([q, p, n] { for (long i = 0; i < n; ++i) { Item it((int)(p * 1000000 + i + 1)); q->ProduceSwap(it); } });
      } else {
        bodies.push_back([q, p, n] { for (long i = 0; i < n; ++i) q->Produce(Item((int)(p * 1000000 + i + 1))); });
      }
    }
    // cswap=0,1,..: per-consumer method (1 = ConsumeSwap, 0 = Consume(T&)); cthrow=k,..: the copy-out of that
    // consumer's k-th Consume(T&) call throws once (k = 0: never); the consumer catches and calls Consume again
    std::vector<long> cswap = sc.list("cswap"), cthrow = sc.list("cthrow");
    int *nthrown = &thrown;
    for (size_t c = 0; c < cons.size(); ++c) {
      long n = cons[c];
      std::vector<int> *g = &got[c];
      long thr = c < cthrow.size() ? cthrow[c] : 0;
      if (c < cswap.size() ? cswap[c] != 0 : sc.num("swap", 0) != 0) {
        bodies.push_back([q, n, g] { for (long i = 0; i < n; ++i) { Item o; q->ConsumeSwap(o); g->push_back(o.v); } });
      } else {
        bodies.push_back([q, n, g, thr, nthrown] {
          for (long i = 0; i < n; ++i) {
            Item o;
            bool need = true;
            if (thr && i + 1 == thr) {
              tls_throw_copy = true;
              try { q->Consume(o); need = false; } catch (const std::bad_alloc &) { harness_unwound(); __sync_fetch_and_add(nthrown, 1); }
              tls_throw_copy = false;
            }
            if (need) q->Consume(o);
            g->push_back(o.v);
          }
        });
      }
    }
  } else if (sc.kind == "ring") {
    std::vector<std::string> writes = sc.strs("writes");
    std::string *f = &file; std::vector<size_t> *ws = &wsizes; int *fl = &flushes; bool *jd = &joined;
    bodies.push_back([writes, f, ws, fl, jd] {
      {
        util::ThreadedBufferedStream<MockWriter> s(f, ws, fl);
        std::string buf;
        for (size_t w = 0; w < writes.size(); ++w) {
          if (writes[w][0] == 'p') {
            // operator<< of a number with the given count of decimal digits ("123456789012...")
            int nd = atoi(writes[w].c_str() + 1);
            uint64_t v = 0;
            for (int d = 0; d < nd; ++d) v = v * 10 + (uint64_t)("1234567890123456789"[d] - '0');
            s << v;
          } else {
            buf.resize(atol(writes[w].c_str()));
            for (size_t j = 0; j < buf.size(); ++j) buf[j] = (char)pattern(w, j);
            s.write(buf.data(), buf.size());
          }
        }
      }
      *jd = true;
    });
  }

  size_t nthreads = bodies.size();
  std::vector<std::thread> threads;
  bool deadlock = false;
  if (!scheduled && sc.mode == "eintr") {
    // consumers first; while they are blocked in sem_wait, interrupt them with a signal whose handler was
    // installed WITHOUT SA_RESTART (sem_wait returns -1/EINTR); only then start the producers
    size_t nprod = sc.kind == "usq" ? 1 : sc.list("prod").size();
    threads.resize(nthreads);
    for (size_t i = nprod; i < nthreads; ++i) threads[i] = std::thread(managed, (int)i, bodies[i]);
    for (int round = 0; round < 4; ++round) {
      usleep(20000);
      for (size_t i = nprod; i < nthreads; ++i) pthread_kill(threads[i].native_handle(), SIGUSR1);
    }
    usleep(20000);
    for (size_t i = 0; i < nprod; ++i) threads[i] = std::thread(managed, (int)i, bodies[i]);
  } else if (!scheduled) {
    for (size_t i = 0; i < nthreads; ++i) threads.emplace_back(managed, (int)i, bodies[i]);
  } else {
    {
      std::lock_guard<std::mutex> lk(G.mu);
      G.th.resize(nthreads);
      G.nrunning = (int)nthreads;
    }
    for (size_t i = 0; i < nthreads; ++i) threads.emplace_back(managed, (int)i, bodies[i]);
    std::unique_lock<std::mutex> lk(G.mu);
    G.cv.wait(lk, [] { return G.nrunning == 0 && G.running == -1; });
    // prologue: run each harness thread up to its first real scheduling point
    for (size_t i = 0; i < nthreads; ++i) {
      G.running = (int)i; G.nrunning = 1;
      G.cv.notify_all();
      G.cv.wait(lk, [] { return G.nrunning == 0 && G.running == -1; });
    }
    for (size_t step = 0;; ++step) {
      unsigned mask = 0;
      bool all_done = true;
      for (size_t i = 0; i < G.th.size(); ++i) {
        Th &t = G.th[i];
        if (t.done) continue;
        all_done = false;
        bool en = true;
        switch (t.pend.kind) {
          case K_WAIT: en = G.count[G.sem_index(t.pend.obj)] > 0; break;
          case K_LOCK: en = !G.held[G.mutex_index(t.pend.obj)]; break;
          case K_JOIN:
            for (size_t j = 0; j < G.th.size(); ++j) if (!G.th[j].harness && !G.th[j].done) en = false;
            if ((int)G.th.size() < G.expected + (int)nthreads) en = false;
            break;
          default: break;
        }
        if (en) mask |= 1u << i;
      }
      if (all_done) break;
      if (!mask) { deadlock = true; break; }
      int t = choose(step, mask);
      Th &c = G.th[t];
      Step s; s.tid = t; s.tag = c.pend.tag; s.mask = mask;
      G.trace.push_back(s);
      G.nrunning = 1;
      switch (c.pend.kind) {
        case K_WAIT: --G.count[G.sem_index(c.pend.obj)]; break;
        case K_POST: ++G.count[G.sem_index(c.pend.obj)]; break;
        case K_LOCK: G.held[G.mutex_index(c.pend.obj)] = true; break;
        case K_UNLOCK: G.held[G.mutex_index(c.pend.obj)] = false; break;
        case K_SPAWN: ++G.expected; G.nrunning = 2; break;
        case K_END: c.done = true; G.nrunning = 0; break;
        default: break;
      }
      G.running = t;
      G.cv.notify_all();
      // a scheduled thread that blocks OUTSIDE a scheduling point (a real mutex the simulation believes free)
      // would hang the scheduler: report it as a deadlock of that thread
      if (!G.cv.wait_for(lk, std::chrono::seconds(10), [] { return G.nrunning == 0 && G.running == -1; })) {
        G.anomaly += " REAL-BLOCK:t" + std::to_string(t) + "@" + s.tag;
        deadlock = true;
        break;
      }
    }
  }
  if (deadlock) {
    // cannot unwind parked threads: the caller prints and _exits
    std::ostringstream os;
    os << "DEADLOCK";
    for (size_t i = 0; i < G.th.size(); ++i) if (!G.th[i].done) os << " t" << i << "@" << G.th[i].pend.tag;
    os << G.anomaly;
    result = os.str();
    for (size_t i = 0; i < threads.size(); ++i) threads[i].detach();
    return false;
  }
  for (size_t i = 0; i < threads.size(); ++i) threads[i].join();
  G.active = false;
  std::ostringstream os;
  if (sc.kind == "ring") {
    os << "file=" << file.size() << ":" << fnv(file) << " flushes=" << flushes << " joined=" << (joined ? 1 : 0) << " blocks=";
    for (size_t i = 0; i < wsizes.size(); ++i) { if (i) os << ","; os << wsizes[i]; }
  } else {
    os << "got=";
    for (size_t c = 0; c < got.size(); ++c) { if (c) os << ";"; os << join_ints(got[c]); }
  }
  if (thrown) os << " thrown=" << thrown;
  if (!result.empty()) os << " " << result;
  os << G.anomaly;
  result = os.str();
  usq.reset();
  pcq.reset();
  return true;
}

std::string trace_text() {
  std::ostringstream os;
  for (size_t i = 0; i < G.trace.size(); ++i) {
    if (i) os << " ";
    os << G.trace[i].tid << G.trace[i].tag << "/" << std::hex << G.trace[i].mask << std::dec;
  }
  return os.str();
}

std::string sched_text() {
  std::string s;
  for (size_t i = 0; i < G.trace.size(); ++i) s.push_back((char)('0' + G.trace[i].tid));
  return s;
}

int lowest(unsigned mask) { for (int i = 0; i < 32; ++i) if (mask & (1u << i)) return i; return -1; }

void run_scenario(const Scenario &sc) {
  long count = 0;
  bool dead = false;
  if (sc.mode == "enum") {
    std::vector<int> prefix;
    for (;;) {
      std::string result;
      bool bad_choice = false;
      bool ok = run_once(sc, [&prefix, &bad_choice](size_t step, unsigned mask) {
        if (step < prefix.size()) {
          if (!(mask & (1u << prefix[step]))) { bad_choice = true; return lowest(mask); }
          return prefix[step];
        }
        return lowest(mask);
      }, result, true);
      ++count;
      std::cout << "x " << sched_text() << " | " << trace_text() << " | " << result << (bad_choice ? " NONDETERMINISTIC" : "") << "\n";
      if (!ok) { dead = true; break; }
      if (count >= sc.limit) break;
      // backtrack: last step with an enabled thread above the chosen one
      std::vector<Step> tr = G.trace;
      int i = (int)tr.size() - 1;
      int next = -1;
      for (; i >= 0; --i) {
        for (int t = tr[i].tid + 1; t < 32; ++t) if (tr[i].mask & (1u << t)) { next = t; break; }
        if (next >= 0) break;
      }
      if (i < 0) break;
      prefix.clear();
      for (int j = 0; j < i; ++j) prefix.push_back(tr[j].tid);
      prefix.push_back(next);
    }
  } else if (sc.mode == "rand") {
    long runs = sc.num("runs", 1);
    long seed = sc.num("seed", 1);
    bool verbose = sc.num("verbose", 0) != 0;
    for (long r = 0; r < runs; ++r) {
      Rng rng((uint64_t)(seed * 1000003 + r));
      std::string result;
      bool ok = run_once(sc, [&rng](size_t, unsigned mask) {
        int n = __builtin_popcount(mask);
        int k = (int)((rng.next() >> 33) % (uint64_t)n);
        for (int i = 0; i < 32; ++i) if (mask & (1u << i)) { if (!k) return i; --k; }
        return -1;
      }, result, true);
      ++count;
      if (verbose) std::cout << "x " << sched_text() << " | " << trace_text() << " | " << result << "\n";
      else std::cout << "x steps=" << G.trace.size() << " trace=" << fnv(trace_text()) << " | " << result << "\n";
      if (!ok) { dead = true; break; }
    }
  } else if (sc.mode == "eintr") {  // real threads; consumers blocked in sem_wait get EINTR
    struct sigaction sa;
    memset(&sa, 0, sizeof(sa));
    sa.sa_handler = [](int) {};
    sa.sa_flags = 0;   // no SA_RESTART
    sigaction(SIGUSR1, &sa, 0);
    long runs = sc.num("runs", 1);
    for (long r = 0; r < runs; ++r) {
      std::string result;
      alarm(20);   // a consumer that lost an item waits forever
      run_once(sc, [](size_t, unsigned) { return 0; }, result, false);
      alarm(0);
      ++count;
      std::cout << "x eintr | " << result << "\n";
    }
  } else {  // free: no scheduler, real concurrency (TSan / stress)
    long runs = sc.num("runs", 1);
    for (long r = 0; r < runs; ++r) {
      std::string result;
      run_once(sc, [](size_t, unsigned) { return 0; }, result, false);
      ++count;
      std::cout << "x free | " << result << "\n";
    }
  }
  std::cout << "E " << count << (dead ? " DEADLOCK" : "") << "\n";
  std::cout.flush();
  if (dead) _exit(0);
}

}  // namespace

int main() {
  std::string line;
  std::cout << "C page=" << sizeof(util::UnboundedPage<Item>().entries) / sizeof(Item)
            << " kBlocks=" << util::BlockQueue::kBlocks << " kBlockSize=" << (size_t)util::BlockQueue::kBlockSize << "\n";
  std::cout.flush();
  while (std::getline(std::cin, line)) {
    if (line.empty()) continue;
    Scenario sc;
    sc.line = line;
    std::vector<std::string> toks = hx::split_ws(line);
    for (size_t i = 0; i < toks.size(); ++i) {
      size_t eq = toks[i].find('=');
      if (eq != std::string::npos) sc.kv[toks[i].substr(0, eq)] = toks[i].substr(eq + 1);
    }
    sc.kind = sc.kv["kind"];
    sc.fine = sc.kv["gran"] == "fine";
    sc.mode = sc.kv.count("mode") ? sc.kv["mode"] : "enum";
    sc.limit = sc.num("limit", 100000);
    std::cout << "S " << line << "\n";
    std::cout.flush();
    // one child process per scenario: a deadlock (or crash) ends only that scenario
    pid_t pid = fork();
    if (pid == 0) {
      run_scenario(sc);
      std::cout.flush();
      _exit(0);
    }
    int status = 0;
    waitpid(pid, &status, 0);
    if (!(WIFEXITED(status) && WEXITSTATUS(status) == 0)) {
      std::cout << "E -1 CRASH status=" << status << "\n";
    }
    std::cout.flush();
  }
  return 0;
}
