set(HX_LIBS fields preprocess_icu ${ICU_LIBRARIES})
