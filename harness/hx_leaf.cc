// C20: the leaf parsers on inputs placed FLUSH AGAINST AN INACCESSIBLE PAGE: the last byte of the input is the
// last byte of a readable page, the next page is PROT_NONE, so that reading even one byte past the end is a SIGSEGV
// (in any build flavour; under ASan additionally every heap object is exact).  One case per line:
//   U <hex>                      util::IsUTF8 and the first util::DecodeUTF8 over exactly these bytes: "<0|1> <cp|ERR> <len>"
//   B <hex>                      preprocess::base64_decode: "OK <hex>" | "BAD" | "LEN"
//   P <hex>                      preprocess::ParseFields on the NUL-terminated string (NUL is the last readable byte): "OK <n ranges>" | "EXC"
//   F <hex line> <hex spec> <hex delim>   ParseFields + DefragmentFields + RangeFields over the guarded line: "OK <piece hex>,..." | "EXC"
#include "hx_common.hh"
#include "preprocess/base64.hh"
#include "preprocess/fields.hh"
#include "util/exception.hh"
#include "util/string_piece.hh"
#include "util/utf8.hh"

#include <cstring>
#include <stdexcept>
#include <sys/mman.h>
#include <unistd.h>

namespace {
const size_t kPage = 4096;
const size_t kPages = 64;          // inputs up to 256 KiB
char *g_region = NULL;

// returns a pointer p such that [p, p + n) is readable and p + n is the first byte of a PROT_NONE page
char *Guarded(const std::string &bytes) {
  if (!g_region) {
    g_region = static_cast<char*>(mmap(NULL, (kPages + 1) * kPage, PROT_READ | PROT_WRITE, MAP_PRIVATE | MAP_ANONYMOUS, -1, 0));
    if (g_region == MAP_FAILED) { perror("mmap"); _exit(3); }
    if (mprotect(g_region + kPages * kPage, kPage, PROT_NONE)) { perror("mprotect"); _exit(3); }
  }
  char *end = g_region + kPages * kPage;
  memset(end - kPage, 0x5a, kPage);                     // stale garbage before the input, never zero
  char *p = end - bytes.size();
  memcpy(p, bytes.data(), bytes.size());
  return p;
}

struct Collect {
  std::string out;
  bool first;
  Collect() : first(true) {}
  void operator()(util::StringPiece s) { if (!first) out += ','; first = false; out += hx::hex(s.data(), s.size()); if (s.empty()) out += "-"; }
};
}  // namespace

int main() {
  std::string line;
  while (std::getline(std::cin, line)) {
    std::vector<std::string> t = hx::split_ws(line);
    if (t.empty()) { std::cout << "?\n"; continue; }
    std::string a = t.size() > 1 && t[1] != "-" ? hx::unhex(t[1]) : std::string();
    if (a.size() > (kPages - 1) * kPage) { std::cout << "TOO-LONG\n"; continue; }
    if (t[0] == "U") {
      char *p = Guarded(a);
      bool ok = util::IsUTF8(util::StringPiece(p, a.size()));
      std::cout << (ok ? 1 : 0) << ' ';
      if (a.empty()) { std::cout << "EMPTY 0\n"; continue; }
      size_t len = 0;
      try {
        char32_t cp = util::DecodeUTF8(p, p + a.size(), &len);
        std::cout << static_cast<unsigned long>(cp) << ' ' << len << "\n";
      } catch (const util::NotUTF8Exception &) {
        std::cout << "ERR " << len << "\n";
      }
    } else if (t[0] == "B") {
      char *p = Guarded(a);
      std::string out;
      try {
        preprocess::base64_decode(util::StringPiece(p, a.size()), out);
        std::cout << "OK " << hx::hex(out) << "\n";
      } catch (const util::Exception &) { std::cout << "BAD\n"; }
      catch (const std::length_error &) { std::cout << "LEN\n"; }
    } else if (t[0] == "P") {
      std::string z = a; z.push_back('\0');
      char *p = Guarded(z);
      std::vector<preprocess::FieldRange> r;
      try { preprocess::ParseFields(p, r); std::cout << "OK " << r.size() << "\n"; }
      catch (const std::exception &) { std::cout << "EXC\n"; }
    } else if (t[0] == "F" && t.size() >= 4) {
      std::string spec = hx::unhex(t[2]);
      std::string delim = hx::unhex(t[3]);
      std::vector<preprocess::FieldRange> r;
      try {
        preprocess::ParseFields(spec.c_str(), r);
        preprocess::DefragmentFields(r);
        char *p = Guarded(a);
        Collect cb;
        preprocess::RangeFields(util::StringPiece(p, a.size()), r, delim.empty() ? '\t' : delim[0], cb);
        std::cout << "OK " << cb.out << "\n";
      } catch (const std::exception &) { std::cout << "EXC\n"; }
    } else std::cout << "?\n";
  }
  return 0;
}
