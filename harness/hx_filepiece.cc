// Correspondence harness for util::FilePiece (property C02): same line protocol as
// ocaml/C02_driver.ml.
//
// The executable defines its own read(), mmap() and sysconf(): the objects of
// libpreprocess_util.a bind to these definitions at link time, so that
//   * the results of every read() on the descriptor under test are dictated by the
//     case's script (Full / Short k / EINTR / error) and served from memory, and every
//     call is logged as requested:returned;
//   * kPageSize can be made tiny (environment HX_PAGESIZE, read once at static
//     initialisation because kPageSize is a namespace-scope constant), which makes
//     the buffer-edge and window-edge code of ReadShift/MMapShift reachable with
//     inputs of a few bytes; with a fake page size mmap() of the descriptor is
//     emulated (anonymous mapping filled with pread), with the real page size
//     the real mmap is used; both log offset:size.
#ifndef _GNU_SOURCE
#define _GNU_SOURCE
#endif
#include "hx_common.hh"
#include "util/file_piece.hh"
#include "util/file.hh"
#include "util/exception.hh"
#include "util/compress.hh"

#include <cerrno>
#include <cstdlib>
#include <cstring>
#include <dlfcn.h>
#include <fcntl.h>
#include <sstream>
#include <sys/mman.h>
#include <sys/syscall.h>
#include <unistd.h>

namespace {
struct Outcome { char kind; long arg; };
int g_fd = -1;                       // descriptor whose reads are scripted (-1: none)
std::string g_src;                   // what it still delivers
size_t g_src_pos = 0;
std::vector<Outcome> g_script;
size_t g_script_pos = 0;
std::string g_trace, g_maps;
int g_map_fd = -1;                   // descriptor whose mmap calls are logged / emulated
bool g_src_follows_fd = false;       // serve reads from the descriptor's real file position (regular files)
long g_mmap_fail_at = -1;             // the k-th mmap call on g_map_fd fails with ENOMEM (-1: none)
long g_mmap_calls = 0;
long g_fake_page = -1;               // -1: not yet looked up; 0: use the real one

long fake_page() {
  if (g_fake_page < 0) {
    const char *e = getenv("HX_PAGESIZE");
    g_fake_page = e ? atol(e) : 0;
  }
  return g_fake_page;
}

void log_pair(std::string &to, long a, long b) {
  if (!to.empty()) to.push_back(',');
  to += std::to_string(a);
  to.push_back(':');
  to += std::to_string(b);
}
}  // namespace

extern "C" long sysconf(int name) {
  if (name == _SC_PAGE_SIZE && fake_page() > 0) return fake_page();
  static long (*real)(int) = NULL;
  if (!real) real = (long (*)(int))dlsym(RTLD_NEXT, "sysconf");
  return real(name);
}

extern "C" ssize_t read(int fd, void *buf, size_t n) {
  if (fd != g_fd || g_fd < 0) return syscall(SYS_read, fd, buf, n);
  Outcome oc = {'F', 0};
  if (g_script_pos < g_script.size()) oc = g_script[g_script_pos++];
  if (oc.kind == 'E') { log_pair(g_trace, n, -1); errno = EINTR; return -1; }
  if (oc.kind == 'X') { log_pair(g_trace, n, -2); errno = (int)oc.arg; return -1; }
  size_t m = n;
  if (oc.kind == 'S') m = std::min<size_t>(n, std::max<long>(1, oc.arg));
  if (g_src_follows_fd) {
    // a regular file: what read() delivers depends on where the descriptor stands (SeekOrThrow in the fall back)
    off_t pos = lseek(fd, 0, SEEK_CUR);
    g_src_pos = std::min<size_t>(pos < 0 ? 0 : (size_t)pos, g_src.size());
  }
  m = std::min(m, g_src.size() - g_src_pos);
  memcpy(buf, g_src.data() + g_src_pos, m);
  g_src_pos += m;
  if (g_src_follows_fd) lseek(fd, (off_t)g_src_pos, SEEK_SET);
  log_pair(g_trace, n, m);
  return m;
}

extern "C" void *mmap(void *addr, size_t length, int prot, int flags, int fd, off_t offset) {
  if (fd < 0 || fd != g_map_fd)
    return (void *)syscall(SYS_mmap, addr, length, prot, flags, fd, offset);
  log_pair(g_maps, offset, length);
  if (g_mmap_calls++ == g_mmap_fail_at) { errno = ENOMEM; return MAP_FAILED; }
  if (fake_page() <= 0)
    return (void *)syscall(SYS_mmap, addr, length, prot, flags, fd, offset);
  // emulation with a fake page size: same failure for length 0 as the kernel
  if (length == 0) { errno = EINVAL; return MAP_FAILED; }
  void *p = (void *)syscall(SYS_mmap, NULL, length, PROT_READ | PROT_WRITE, MAP_PRIVATE | MAP_ANONYMOUS, -1, 0);
  if (p == MAP_FAILED) return p;
  size_t done = 0;
  while (done < length) {
    ssize_t r = pread(fd, (char *)p + done, length - done, offset + done);
    if (r <= 0) break;
    done += r;
  }
  return p;
}

namespace {

std::vector<Outcome> ParseScript(const std::string &s) {
  std::vector<Outcome> out;
  if (s == "-") return out;
  std::istringstream is(s);
  std::string t;
  while (std::getline(is, t, ',')) {
    Outcome oc = {t[0], 0};
    if (t.size() > 1) oc.arg = atol(t.c_str() + 1);
    out.push_back(oc);
  }
  return out;
}

std::string Unhex(const std::string &h) { return h == "-" ? std::string() : hx::unhex(h); }

// read all records through the chosen API, then two more calls (EOF must be sticky)
std::string Drive(util::FilePiece &f, char delim, bool cr, int api) {
  std::string out = "recs=";
  util::StringPiece line;
  std::string eof;
  if (api == 0) {
    while (f.ReadLineOrEOF(line, delim, cr)) { out += "[" + hx::hex(line.data(), line.size()) + "]"; }
  } else if (api == 1) {
    try {
      while (true) { line = f.ReadLine(delim, cr); out += "[" + hx::hex(line.data(), line.size()) + "]"; }
    } catch (const util::EndOfFileException &) {}
  } else {
    // LineIterator strips CR always (default argument of ReadLineOrEOF)
    for (util::LineIterator it(f, delim); it; ++it) { out += "[" + hx::hex(it->data(), it->size()) + "]"; }
  }
  for (int k = 0; k < 2; ++k) {
    if (api == 1) {
      try { f.ReadLine(delim, cr); eof += "L"; } catch (const util::EndOfFileException &) { eof += "T"; }
    } else {
      eof += f.ReadLineOrEOF(line, delim, cr) ? "L" : "T";
    }
  }
  return out + " trace=" + g_trace + " maps=" + g_maps + " eof=" + eof;
}

std::string RunCase(const std::vector<std::string> &t) {
  g_trace.clear(); g_maps.clear(); g_fd = -1; g_map_fd = -1; g_script_pos = 0; g_src_pos = 0; g_src_follows_fd = false;
  if (t.size() < 7) return "?";
  std::size_t min_buffer = strtoul(t[2].c_str(), NULL, 10);
  char delim = (char)atoi(t[3].c_str());
  bool cr = t[4] == "1";
  int api = atoi(t[5].c_str());
  try {
    if (t[0] == "R" && t.size() == 8) {
      int fds[2];
      if (pipe(fds)) return "? pipe";
      close(fds[1]);
      g_src = Unhex(t[6]);
      g_script = ParseScript(t[7]);
      g_fd = fds[0];
      util::FilePiece f(fds[0], "hx", NULL, min_buffer);
      std::string r = Drive(f, delim, cr, api);
      g_fd = -1;
      return r;
    } else if (t[0] == "I" && t.size() == 7) {
      std::istringstream is(Unhex(t[6]));
      util::FilePiece f(is, "hx", min_buffer);
      return Drive(f, delim, cr, api);
    } else if (t[0] == "M" && (t.size() == 9 || t.size() == 10)) {
      g_mmap_calls = 0;
      g_mmap_fail_at = (t.size() == 10 && t[9][0] == 'F') ? atol(t[9].c_str() + 1) : -1;
      std::string file = Unhex(t[6]);
      const char *dir = getenv("HX_TMPDIR");
      std::string tmpl = std::string(dir ? dir : "/var/tmp") + "/hx_filepiece_XXXXXX";
      std::vector<char> namev(tmpl.begin(), tmpl.end());
      namev.push_back(0);
      char *name = &namev[0];
      int fd = mkstemp(name);
      if (fd < 0) return "? mkstemp";
      unlink(name);
      size_t done = 0;
      while (done < file.size()) {
        ssize_t w = write(fd, file.data() + done, file.size() - done);
        if (w <= 0) return "? write";
        done += w;
      }
      off_t off = strtoul(t[7].c_str(), NULL, 10);
      lseek(fd, off, SEEK_SET);
      // reads on this descriptor (only after a fall back) follow the script and
      // deliver the file from its current offset
      g_src = file;
      g_src_follows_fd = true;
      g_script = ParseScript(t[8]);
      g_fd = fd;
      g_map_fd = fd;
      util::FilePiece f(fd, "hx", NULL, min_buffer);
      std::string r = Drive(f, delim, cr, api);
      g_fd = -1; g_map_fd = -1;
      return r;
    }
  } catch (const util::CompressedException &e) {
    g_fd = -1; g_map_fd = -1;
    return "FAIL compressed";
  } catch (const util::FDException &e) {
    g_fd = -1; g_map_fd = -1;
    return "FAIL errno";
  } catch (const util::Exception &e) {
    g_fd = -1; g_map_fd = -1;
    return std::string("FAIL exception ") + e.what();
  }
  return "?";
}

}  // namespace

int main() {
  std::string line;
  while (std::getline(std::cin, line)) {
    std::vector<std::string> t = hx::split_ws(line);
    if (t.empty()) { std::cout << "?\n"; continue; }
    // the page size of this process is fixed; a case for another page size is a protocol error
    long page = atol(t[1].c_str());
    if (page != sysconf(_SC_PAGE_SIZE)) { std::cout << "? page size of this process is " << sysconf(_SC_PAGE_SIZE) << "\n"; continue; }
    std::cout << RunCase(t) << "\n";
  }
  return 0;
}
