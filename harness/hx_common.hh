// shared helpers for harnesses: hex line protocol
#pragma once
#include <string>
#include <vector>
#include <iostream>
#include <sstream>
#include <cstdio>

namespace hx {
inline int hexval(char c) {
  if (c >= '0' && c <= '9') return c - '0';
  if (c >= 'a' && c <= 'f') return c - 'a' + 10;
  if (c >= 'A' && c <= 'F') return c - 'A' + 10;
  return -1;
}
inline std::string unhex(const std::string &h) {
  std::string out;
  out.reserve(h.size() / 2);
  for (size_t i = 0; i + 1 < h.size(); i += 2) out.push_back(char(hexval(h[i]) * 16 + hexval(h[i + 1])));
  return out;
}
inline std::string hex(const char *p, size_t n) {
  static const char *d = "0123456789abcdef";
  std::string out;
  out.reserve(2 * n);
  for (size_t i = 0; i < n; ++i) {
    unsigned char c = (unsigned char)p[i];
    out.push_back(d[c >> 4]);
    out.push_back(d[c & 15]);
  }
  return out;
}
inline std::string hex(const std::string &s) { return hex(s.data(), s.size()); }
inline std::vector<std::string> split_ws(const std::string &line) {
  std::vector<std::string> out;
  std::istringstream is(line);
  std::string t;
  while (is >> t) out.push_back(t);
  return out;
}
}  // namespace hx
