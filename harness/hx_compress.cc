// Harness for util/compress.cc (C15): drives the real ReadCompressed /
// WriteCompressed / GZCompress classes of the working tree.
//
// Line protocol (one case per line, one result line per case):
//   R <streamhex|-> <frag,frag,...|-> <amount,amount,...>
//       the stream is delivered through a pipe in exactly these fragments (a
//       fragment is written only when the pipe is empty, so every read(2)
//       returns min(request, rest of the current fragment)); ReadCompressed::Read
//       is called with the given amounts (the last one repeats) until it returns 0.
//       -> OK <hex of everything read> <returned sizes, comma separated|->
//          ERR <GZ|BZ|XZ|CE|EOF|EX> <hex read before the error> <sizes|->
//   W <none|gzip|bzip2> <op,op,...|->   op = w<hex> (write; "w" alone = write of 0 bytes) | f (flush)
//       WriteCompressed on a fresh file, ops, then destruction.
//       -> OK <file hex>  |  ERR <class>
//   Z <level> <hex|->      GZCompress one shot  -> OK <hex>
//   K                      constants -> K <kMagicSize>
// Every case is bracketed in the codec log (libvcodec.so) by "M case <n>".
// A case that does not finish within HX_CASE_TIMEOUT seconds (default 10)
// prints "HANG" and the process exits with status 3 (the check resumes after it).
#include "hx_common.hh"
#include "util/compress.hh"
#include "util/exception.hh"
#include "util/file.hh"

#include <atomic>
#include <csignal>
#include <cstdlib>
#include <cstring>
#include <thread>

#include <fcntl.h>
#include <sched.h>
#include <sys/ioctl.h>
#include <sys/stat.h>
#include <unistd.h>

extern "C" void vcodec_mark(const char *) __attribute__((weak));

namespace {

std::vector<size_t> parse_sizes(const std::string &s) {
  std::vector<size_t> out;
  if (s == "-") return out;
  size_t cur = 0;
  bool have = false;
  for (char c : s) {
    if (c == ',') {
      if (have) out.push_back(cur);
      cur = 0;
      have = false;
    } else {
      cur = cur * 10 + size_t(c - '0');
      have = true;
    }
  }
  if (have) out.push_back(cur);
  return out;
}

std::string join_sizes(const std::vector<size_t> &v) {
  if (v.empty()) return "-";
  std::string out;
  for (size_t i = 0; i < v.size(); ++i) {
    if (i) out += ',';
    out += std::to_string(v[i]);
  }
  return out;
}

// Writes `data` into fd in the given fragments; each fragment only once the pipe is empty.
std::atomic<bool> g_stop(false);

void Feeder(int fd, std::string data, std::vector<size_t> frags) {
  size_t pos = 0;
  size_t fi = 0;
  while (pos < data.size()) {
    size_t n = fi < frags.size() ? frags[fi] : data.size() - pos;
    ++fi;
    if (n == 0) continue;
    if (n > data.size() - pos) n = data.size() - pos;
    // wait until the reader has drained the pipe
    for (;;) {
      int pending = 0;
      if (ioctl(fd, FIONREAD, &pending) != 0 || pending == 0) break;
      if (g_stop.load()) {
        close(fd);
        return;
      }
      sched_yield();
    }
    size_t done = 0;
    while (done < n) {
      ssize_t w = write(fd, data.data() + pos + done, n - done);
      if (w <= 0) {
        close(fd);
        return;
      }
      done += size_t(w);
    }
    pos += n;
  }
  close(fd);
}

const char *Classify(const std::exception &e) {
  if (dynamic_cast<const util::GZException *>(&e)) return "GZ";
  if (dynamic_cast<const util::BZException *>(&e)) return "BZ";
  if (dynamic_cast<const util::XZException *>(&e)) return "XZ";
  if (dynamic_cast<const util::CompressedException *>(&e)) return "CE";
  if (dynamic_cast<const util::EndOfFileException *>(&e)) return "EOF";
  return "EX";
}

void CaseRead(const std::vector<std::string> &t) {
  std::string stream = t.size() > 1 && t[1] != "-" ? hx::unhex(t[1]) : std::string();
  std::vector<size_t> frags = parse_sizes(t.size() > 2 ? t[2] : "-");
  std::vector<size_t> amounts = parse_sizes(t.size() > 3 ? t[3] : "4096");
  if (amounts.empty()) amounts.push_back(4096);
  int fds[2];
  if (pipe(fds)) abort();
  // a pipe buffer of 64 KiB is enough: one fragment is in flight at a time
  g_stop.store(false);
  std::thread feeder(Feeder, fds[1], stream, frags);
  std::string got;
  std::vector<size_t> sizes;
  const char *err = NULL;
  {
    try {
      util::ReadCompressed reader(fds[0]);
      std::vector<char> buf;
      for (size_t i = 0;; ++i) {
        size_t amount = amounts[i < amounts.size() ? i : amounts.size() - 1];
        buf.resize(amount ? amount : 1);
        size_t r = reader.Read(buf.data(), amount);
        sizes.push_back(r);
        if (!r) break;
        got.append(buf.data(), r);
      }
    } catch (const std::exception &e) {
      err = Classify(e);
    }
  }
  // the reader (and with it the read end) is gone: unblock the feeder
  g_stop.store(true);
  feeder.join();
  if (err) {
    std::cout << "ERR " << err << ' ' << (got.empty() ? std::string("-") : hx::hex(got)) << ' ' << join_sizes(sizes) << "\n";
  } else {
    std::cout << "OK " << (got.empty() ? std::string("-") : hx::hex(got)) << ' ' << join_sizes(sizes) << "\n";
  }
}

void CaseWrite(const std::vector<std::string> &t) {
  util::WriteCompressed::Compression comp = util::WriteCompressed::NONE;
  if (t.size() > 1 && t[1] == "gzip") comp = util::WriteCompressed::GZIP;
  if (t.size() > 1 && t[1] == "bzip2") comp = util::WriteCompressed::BZIP;
  std::vector<std::string> ops;
  if (t.size() > 2 && t[2] != "-") {
    std::string cur;
    for (char c : t[2]) {
      if (c == ',') {
        ops.push_back(cur);
        cur.clear();
      } else {
        cur.push_back(c);
      }
    }
    ops.push_back(cur);
  }
  const char *dir = getenv("HX_TMPDIR");
  std::string templ = std::string(dir ? dir : "/var/tmp") + "/hxcompXXXXXX";
  std::vector<char> name(templ.begin(), templ.end());
  name.push_back(0);
  int fd = mkstemp(name.data());
  if (fd < 0) abort();
  int rfd = open(name.data(), O_RDONLY);
  unlink(name.data());
  const char *err = NULL;
  try {
    util::WriteCompressed w(fd, comp);
    for (const std::string &op : ops) {
      if (op == "f") {
        w.flush();
      } else if (!op.empty() && op[0] == 'w') {
        std::string data = hx::unhex(op.substr(1));
        w.write(data.data(), data.size());
      }
    }
  } catch (const std::exception &e) {
    err = Classify(e);
  }
  std::string file;
  char buf[65536];
  for (;;) {
    ssize_t r = read(rfd, buf, sizeof buf);
    if (r <= 0) break;
    file.append(buf, size_t(r));
  }
  close(rfd);
  if (err) {
    std::cout << "ERR " << err << "\n";
  } else {
    std::cout << "OK " << (file.empty() ? std::string("-") : hx::hex(file)) << "\n";
  }
}

void CaseOneShot(const std::vector<std::string> &t) {
  int level = t.size() > 1 ? atoi(t[1].c_str()) : 9;
  std::string data = t.size() > 2 && t[2] != "-" ? hx::unhex(t[2]) : std::string();
  std::string out;
  try {
    util::GZCompress(util::StringPiece(data.data(), data.size()), out, level);
    std::cout << "OK " << (out.empty() ? std::string("-") : hx::hex(out)) << "\n";
  } catch (const std::exception &e) {
    std::cout << "ERR " << Classify(e) << "\n";
  }
}

void OnAlarm(int) {
  static const char msg[] = "HANG\n";
  std::cout.flush();
  ssize_t ignored = write(1, msg, sizeof msg - 1);
  (void)ignored;
  _exit(3);
}

}  // namespace

int main() {
  signal(SIGPIPE, SIG_IGN);
  signal(SIGALRM, OnAlarm);
  const char *to = getenv("HX_CASE_TIMEOUT");
  unsigned timeout = to ? unsigned(atoi(to)) : 10;
  std::string line;
  size_t n = 0;
  while (std::getline(std::cin, line)) {
    std::vector<std::string> t = hx::split_ws(line);
    if (vcodec_mark) {
      std::string m = "case " + std::to_string(n);
      vcodec_mark(m.c_str());
    }
    ++n;
    alarm(timeout);
    if (t.empty()) {
      std::cout << "?\n";
    } else if (t[0] == "R") {
      CaseRead(t);
    } else if (t[0] == "W") {
      CaseWrite(t);
    } else if (t[0] == "Z") {
      CaseOneShot(t);
    } else if (t[0] == "K") {
      std::cout << "K " << util::ReadCompressed::kMagicSize << "\n";
    } else {
      std::cout << "?\n";
    }
    alarm(0);
    std::cout.flush();
  }
  return 0;
}
