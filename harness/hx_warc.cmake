set(HX_LIBS warc)
