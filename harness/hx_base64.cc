// Correspondence harness for preprocess/base64.cc: same line protocol as ocaml/C09_driver.ml
#include "hx_common.hh"
#include "preprocess/base64.hh"
#include "util/exception.hh"
#include <stdexcept>

int main() {
  std::string line;
  while (std::getline(std::cin, line)) {
    std::vector<std::string> t = hx::split_ws(line);
    if (t.empty()) { std::cout << "?\n"; continue; }
    std::string arg = t.size() > 1 ? hx::unhex(t[1]) : std::string();
    std::string out;
    if (t[0] == "E" || t[0] == "R") {
      preprocess::base64_encode(util::StringPiece(arg.data(), arg.size()), out);
      std::cout << "OK " << hx::hex(out) << "\n";
    } else if (t[0] == "D") {
      try {
        preprocess::base64_decode(util::StringPiece(arg.data(), arg.size()), out);
        std::cout << "OK " << hx::hex(out) << "\n";
      } catch (util::Exception &e) {
        std::cout << "BAD\n";
      } catch (std::length_error &e) {
        std::cout << "LEN\n";
      }
    } else if (t[0] == "D2") {
      // decode twice into the SAME output string (callers such as base64_number reuse it):
      // the second result must not depend on the first
      std::string first = t.size() > 1 && t[1] != "-" ? hx::unhex(t[1]) : std::string();
      std::string second = t.size() > 2 && t[2] != "-" ? hx::unhex(t[2]) : std::string();
      try {
        preprocess::base64_decode(util::StringPiece(first.data(), first.size()), out);
      } catch (...) {}
      try {
        preprocess::base64_decode(util::StringPiece(second.data(), second.size()), out);
        std::cout << "OK " << hx::hex(out) << "\n";
      } catch (util::Exception &e) {
        std::cout << "BAD\n";
      } catch (std::length_error &e) {
        std::cout << "LEN\n";
      }
    } else if (t[0] == "E2") {
      std::string first = t.size() > 1 && t[1] != "-" ? hx::unhex(t[1]) : std::string();
      std::string second = t.size() > 2 && t[2] != "-" ? hx::unhex(t[2]) : std::string();
      preprocess::base64_encode(util::StringPiece(first.data(), first.size()), out);
      preprocess::base64_encode(util::StringPiece(second.data(), second.size()), out);
      std::cout << "OK " << hx::hex(out) << "\n";
    } else {
      std::cout << "?\n";
    }
  }
  return 0;
}
