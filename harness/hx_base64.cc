// Correspondence harness for preprocess/base64.cc: same line protocol as ocaml/C09_driver.ml
#include "hx_common.hh"
#include "preprocess/base64.hh"
#include "util/exception.hh"
#include <stdexcept>

int main() {
  std::string line;
  while (std::getline(std::cin, line)) {
    std::vector<std::string> t = hx::split_ws(line);
    if (t.empty()) { std::cout << "?\n"; continue; }
    std::string arg = t.size() > 1 ? hx::unhex(t[1]) : std::string();
    std::string out;
    if (t[0] == "E" || t[0] == "R") {
      preprocess::base64_encode(util::StringPiece(arg.data(), arg.size()), out);
      std::cout << "OK " << hx::hex(out) << "\n";
    } else if (t[0] == "D") {
      try {
        preprocess::base64_decode(util::StringPiece(arg.data(), arg.size()), out);
        std::cout << "OK " << hx::hex(out) << "\n";
      } catch (util::Exception &e) {
        std::cout << "BAD\n";
      } catch (std::length_error &e) {
        std::cout << "LEN\n";
      }
    } else {
      std::cout << "?\n";
    }
  }
  return 0;
}
