/* libvfio.so -- LD_PRELOAD interposer that imposes an outcome on every
 * read/write/pread/pwrite (and readv/writev) call of the program it is loaded into
 * (properties C03; error injection for C11).
 *
 * Outcomes (same as Sys/SysIODefs.v):
 *   F      the call is passed to the kernel unchanged
 *   S<k>   the call is passed on with its size cut to min(k, requested), k >= 1
 *   E      the call fails with EINTR, nothing is transferred
 *   X<e>   the call fails with errno e, nothing is transferred
 *
 * Which outcome the n-th matching call gets:
 *   1. VFIO_SCRIPT="S3,E,F,X5,..."  consumed in order by the matching calls; then
 *   2. VFIO_ERR="<n>:<errno>[:<op>]" the n-th (0-based) matching call (of kind op = r|w, default any) fails; then
 *   3. VFIO_SEED=<int> with VFIO_PSHORT / VFIO_PEINTR (per mille, default 300 / 200):
 *      pseudo-random Short/EINTR outcomes, reproducible for a single-threaded program; else
 *   4. VFIO_CAP=<k>: every matching call is cut to at most k bytes (reads arriving 1 or 2 bytes at a time); else
 *   5. VFIO_MINUS=<k>: every matching READ asking for n > 4096 bytes returns exactly n-k bytes (the
 *      interposer keeps reading until it has them, or end of input): buffers end up k bytes short of full; else
 *   6. Full.
 * Matching: VFIO_FDS="all" (default) or a comma separated list of descriptors;
 *           VFIO_OPS= any of r (read, readv), w (write, writev), p (pread, pwrite); default "rwp".
 *   VFIO_MAXEINTR=<n> (default 3): at most n consecutive random EINTRs per descriptor.
 * VFIO_LOG=<path>: every matching call is appended as "<op> <fd> <requested> <returned>\n"
 *   (returned: byte count, -1 = EINTR injected, -2 = error injected, -3 = kernel error).
 * The library removes itself from LD_PRELOAD when it is loaded, so that child
 * processes started by the program are not affected (set VFIO_INHERIT=1 to keep it).
 *
 * In-process control for harnesses that link nothing but call through weak symbols:
 *   void vfio_control(const char *script, const char *fds, const char *ops)   reset script / filters, clear the log
 *   const char *vfio_log(void)                                                log of the calls since the last control
 */
#define _GNU_SOURCE
#include <errno.h>
#include <fcntl.h>
#include <stdarg.h>
#include <stdint.h>
#include <stdio.h>
#include <stdlib.h>
#include <string.h>
#include <sys/syscall.h>
#include <sys/types.h>
#include <sys/uio.h>
#include <unistd.h>

#define MAXSCRIPT 65536
#define MAXFD 1024

struct outcome { char kind; long arg; };

static struct outcome g_script[MAXSCRIPT];
static int g_script_len = 0;
static volatile int g_script_pos = 0;
static int g_all_fds = 1;
static unsigned char g_fd_on[MAXFD];
static int g_ops_r = 1, g_ops_w = 1, g_ops_p = 1;
static int g_random = 0;
static uint64_t g_rng = 0x9E3779B97F4A7C15ull;
static int g_pshort = 300, g_peintr = 200, g_maxeintr = 3;
static long g_cap = 0, g_minus = 0;
static unsigned char g_eintr_run[MAXFD];
static long g_err_at = -1;
static int g_err_errno = 5;
static char g_err_op = 0;
static volatile long g_calls = 0;
static int g_log_fd = -1;
static char *g_mem_log = NULL;
static size_t g_mem_log_len = 0, g_mem_log_cap = 0;
static int g_mem_logging = 0;
static volatile int g_lock = 0;
static int g_ready = 0;

static void lock(void) { while (__sync_lock_test_and_set(&g_lock, 1)) { } }
static void unlock(void) { __sync_lock_release(&g_lock); }

static void parse_script(const char *s) {
  g_script_len = 0;
  g_script_pos = 0;
  if (!s) return;
  while (*s && g_script_len < MAXSCRIPT) {
    while (*s == ',' || *s == ' ') ++s;
    if (!*s) break;
    struct outcome oc;
    oc.kind = *s++;
    oc.arg = 0;
    if (*s >= '0' && *s <= '9') oc.arg = strtol(s, (char **)&s, 10);
    if (oc.kind == 'F' || oc.kind == 'S' || oc.kind == 'E' || oc.kind == 'X') g_script[g_script_len++] = oc;
    while (*s && *s != ',') ++s;
  }
}

static void parse_fds(const char *s) {
  memset(g_fd_on, 0, sizeof(g_fd_on));
  if (!s || !*s || !strcmp(s, "all")) { g_all_fds = 1; return; }
  g_all_fds = 0;
  while (*s) {
    long fd = strtol(s, (char **)&s, 10);
    if (fd >= 0 && fd < MAXFD) g_fd_on[fd] = 1;
    while (*s && (*s < '0' || *s > '9')) ++s;
  }
}

static void parse_ops(const char *s) {
  if (!s || !*s) { g_ops_r = g_ops_w = g_ops_p = 1; return; }
  g_ops_r = strchr(s, 'r') != NULL;
  g_ops_w = strchr(s, 'w') != NULL;
  g_ops_p = strchr(s, 'p') != NULL;
}

__attribute__((constructor)) static void vfio_init(void) {
  const char *e;
  parse_script(getenv("VFIO_SCRIPT"));
  parse_fds(getenv("VFIO_FDS"));
  parse_ops(getenv("VFIO_OPS"));
  if ((e = getenv("VFIO_SEED")) && *e) {
    g_random = 1;
    g_rng ^= (uint64_t)strtoull(e, NULL, 10) * 0xD1342543DE82EF95ull + 1;
  }
  if ((e = getenv("VFIO_PSHORT"))) g_pshort = atoi(e);
  if ((e = getenv("VFIO_PEINTR"))) g_peintr = atoi(e);
  if ((e = getenv("VFIO_MAXEINTR"))) g_maxeintr = atoi(e);
  if ((e = getenv("VFIO_CAP"))) g_cap = atol(e);
  if ((e = getenv("VFIO_MINUS"))) g_minus = atol(e);
  if ((e = getenv("VFIO_ERR")) && *e) {
    char *q;
    g_err_at = strtol(e, &q, 10);
    if (*q == ':') { g_err_errno = (int)strtol(q + 1, &q, 10); }
    if (*q == ':') g_err_op = q[1];
  }
  if ((e = getenv("VFIO_LOG")) && *e) {
    g_log_fd = (int)syscall(SYS_open, e, O_WRONLY | O_CREAT | O_APPEND | O_CLOEXEC, 0644);
    if (g_log_fd >= 0 && g_log_fd < 100) {   /* keep it away from the descriptors the program will get */
      int hi = fcntl(g_log_fd, F_DUPFD_CLOEXEC, 900);
      if (hi >= 0) { syscall(SYS_close, g_log_fd); g_log_fd = hi; }
    }
  }
  if (!getenv("VFIO_INHERIT")) unsetenv("LD_PRELOAD");
  g_ready = 1;
}

static uint64_t rnd(void) {
  g_rng ^= g_rng << 13; g_rng ^= g_rng >> 7; g_rng ^= g_rng << 17;
  return g_rng;
}

static void log_call(char op, int fd, size_t req, long ret) {
  char line[96];
  int n = snprintf(line, sizeof(line), "%c %d %zu %ld\n", op, fd, req, ret);
  if (g_log_fd >= 0) syscall(SYS_write, g_log_fd, line, (size_t)n);
  if (g_mem_logging) {
    if (g_mem_log_len + n + 1 > g_mem_log_cap) {
      g_mem_log_cap = (g_mem_log_cap + n + 1) * 2;
      g_mem_log = (char *)realloc(g_mem_log, g_mem_log_cap);
    }
    memcpy(g_mem_log + g_mem_log_len, line, n + 1);
    g_mem_log_len += n;
  }
}

/* decide the outcome of one matching call; returns 0 if the call does not match */
static int decide(char op, int fd, size_t n, struct outcome *oc) {
  oc->kind = 'F';
  oc->arg = 0;
  if (!g_ready || fd < 0 || fd == g_log_fd) return 0;
  if (!g_all_fds && !(fd < MAXFD && g_fd_on[fd])) return 0;
  if ((op == 'r' && !g_ops_r) || (op == 'w' && !g_ops_w) || ((op == 'P' || op == 'Q') && !g_ops_p)) return 0;
  long idx = g_calls++;
  oc->kind = 'F';
  oc->arg = 0;
  if (g_script_pos < g_script_len) { *oc = g_script[g_script_pos++]; return 1; }
  if (g_err_at >= 0 && idx >= g_err_at && (!g_err_op || g_err_op == op || (g_err_op == 'r' && op == 'P') || (g_err_op == 'w' && op == 'Q'))) {
    g_err_at = -1;
    oc->kind = 'X';
    oc->arg = g_err_errno;
    return 1;
  }
  if (g_random && n > 0) {
    uint64_t r = rnd() % 1000;
    int slot = fd < MAXFD ? fd : MAXFD - 1;
    if ((int)r < g_peintr && g_eintr_run[slot] < g_maxeintr) {
      g_eintr_run[slot]++;
      oc->kind = 'E';
      return 1;
    }
    g_eintr_run[slot] = 0;
    if ((int)r < g_peintr + g_pshort && n > 1) {
      oc->kind = 'S';
      uint64_t k = rnd();
      /* mostly tiny, sometimes anywhere */
      oc->arg = (k & 3) ? 1 + (long)((k >> 8) % 7) : 1 + (long)((k >> 8) % (n - 1));
      return 1;
    }
  }
  if (g_cap > 0 && (long)n > g_cap) {
    oc->kind = 'S';
    oc->arg = g_cap;
    return 1;
  }
  if (g_minus > 0 && op == 'r' && n > 4096 && (long)n > g_minus) {
    oc->kind = 'M';            /* read exactly n - g_minus bytes */
    oc->arg = (long)n - g_minus;
    return 1;
  }
  return 1;
}

static size_t cut(const struct outcome *oc, size_t n) {
  if (oc->kind == 'S') {
    size_t k = oc->arg < 1 ? 1 : (size_t)oc->arg;
    return k < n ? k : n;
  }
  return n;
}

#define INJECT(op, fd, n, REALCALL)                                   \
  struct outcome oc;                                                  \
  lock();                                                             \
  int m = decide(op, fd, n, &oc);                                     \
  if (!m) { unlock(); size_t len = n; (void)len; return REALCALL; }   \
  if (oc.kind == 'E') { log_call(op, fd, n, -1); unlock(); errno = EINTR; return -1; } \
  if (oc.kind == 'X') { log_call(op, fd, n, -2); unlock(); errno = (int)oc.arg; return -1; } \
  size_t len = cut(&oc, n);                                           \
  unlock();                                                           \
  long ret = REALCALL;                                                \
  int saved = errno;                                                  \
  lock(); log_call(op, fd, n, ret < 0 ? -3 : ret); unlock();          \
  errno = saved;                                                      \
  return ret;

static long read_exactly(int fd, char *buf, size_t want) {
  size_t done = 0;
  while (done < want) {
    long r = syscall(SYS_read, fd, buf + done, want - done);
    if (r < 0) { if (errno == EINTR) continue; return done ? (long)done : r; }
    if (r == 0) break;
    done += (size_t)r;
  }
  return (long)done;
}

ssize_t read(int fd, void *buf, size_t n) {
  INJECT('r', fd, n, (oc.kind == 'M' ? read_exactly(fd, (char *)buf, (size_t)oc.arg) : syscall(SYS_read, fd, buf, len)))
}
ssize_t write(int fd, const void *buf, size_t n) { INJECT('w', fd, n, syscall(SYS_write, fd, buf, len)) }
ssize_t pread(int fd, void *buf, size_t n, off_t off) { INJECT('P', fd, n, syscall(SYS_pread64, fd, buf, len, off)) }
ssize_t pwrite(int fd, const void *buf, size_t n, off_t off) { INJECT('Q', fd, n, syscall(SYS_pwrite64, fd, buf, len, off)) }
ssize_t pread64(int fd, void *buf, size_t n, off_t off) { INJECT('P', fd, n, syscall(SYS_pread64, fd, buf, len, off)) }
ssize_t pwrite64(int fd, const void *buf, size_t n, off_t off) { INJECT('Q', fd, n, syscall(SYS_pwrite64, fd, buf, len, off)) }
ssize_t __read_chk(int fd, void *buf, size_t n, size_t buflen) { (void)buflen; return read(fd, buf, n); }
ssize_t __pread_chk(int fd, void *buf, size_t n, off_t off, size_t buflen) { (void)buflen; return pread(fd, buf, n, off); }
ssize_t __pread64_chk(int fd, void *buf, size_t n, off_t off, size_t buflen) { (void)buflen; return pread(fd, buf, n, off); }

/* vectored calls (libstdc++'s filebuf uses writev): a short outcome cuts the total */
static ssize_t vec(char op, int fd, const struct iovec *iov, int cnt) {
  size_t total = 0;
  for (int i = 0; i < cnt; ++i) total += iov[i].iov_len;
  struct outcome oc;
  lock();
  int m = decide(op, fd, total, &oc);
  if (!m) { unlock(); return syscall(op == 'r' ? SYS_readv : SYS_writev, fd, iov, cnt); }
  if (oc.kind == 'E') { log_call(op, fd, total, -1); unlock(); errno = EINTR; return -1; }
  if (oc.kind == 'X') { log_call(op, fd, total, -2); unlock(); errno = (int)oc.arg; return -1; }
  size_t len = cut(&oc, total);
  unlock();
  struct iovec tmp[64];
  int k = 0;
  size_t left = len;
  for (int i = 0; i < cnt && k < 64 && left > 0; ++i) {
    tmp[k] = iov[i];
    if (tmp[k].iov_len > left) tmp[k].iov_len = left;
    left -= tmp[k].iov_len;
    ++k;
  }
  long ret = (len == total && cnt <= 64) ? syscall(op == 'r' ? SYS_readv : SYS_writev, fd, iov, cnt)
                                        : syscall(op == 'r' ? SYS_readv : SYS_writev, fd, tmp, k);
  int saved = errno;
  lock(); log_call(op, fd, total, ret < 0 ? -3 : ret); unlock();
  errno = saved;
  return ret;
}
ssize_t readv(int fd, const struct iovec *iov, int cnt) { return vec('r', fd, iov, cnt); }
ssize_t writev(int fd, const struct iovec *iov, int cnt) { return vec('w', fd, iov, cnt); }

/* ---- in-process control (harness) ---- */
void vfio_control(const char *script, const char *fds, const char *ops) {
  lock();
  parse_script(script);
  parse_fds(fds);
  parse_ops(ops);
  g_calls = 0;
  g_mem_logging = 1;
  g_mem_log_len = 0;
  if (g_mem_log) g_mem_log[0] = 0;
  unlock();
}

const char *vfio_log(void) { return g_mem_log && g_mem_log_len ? g_mem_log : ""; }
