// Harness for preprocess/simple_cleaning_main.cc (property C18).
//   U <cp>...                          ICU classes: prints "<common> <inherited> cp:script:punct:space ..."
//                                      (script -1 when uscript_getScript fails or returns USCRIPT_INVALID_CODE)
//   F <min_chars> <run> <sample> <mci> <minpunct> <hexfield>     SimpleCleaningFilter::operator() -> 0/1
//   R <fieldspec>                      ParseFields + DefragmentFields -> b:e,b:inf
//   SN <name,name>                     ScriptStringsToCodes -> codes
//   FS <min_chars> <run> <sample> <mci> <minpunct> <minscripts> <codes|-> <hexfield>   the filter with --scripts
#include "hx_common.hh"
#include <boost/lexical_cast.hpp>
#define main simple_cleaning_main_renamed
#include "preprocess/simple_cleaning_main.cc"
#undef main

int main() {
  std::string line;
  while (std::getline(std::cin, line)) {
    std::vector<std::string> t = hx::split_ws(line);
    std::string out;
    try {
      if (t.size() >= 1 && t[0] == "U") {
        out = std::to_string((int)USCRIPT_COMMON) + " " + std::to_string((int)USCRIPT_INHERITED);
        for (size_t i = 1; i < t.size(); ++i) {
          UChar32 c = (UChar32)strtol(t[i].c_str(), NULL, 10);
          UErrorCode err = U_ZERO_ERROR;
          UScriptCode s = uscript_getScript(c, &err);
          int sc = (U_FAILURE(err) || s == USCRIPT_INVALID_CODE) ? -1 : (int)s;
          out += " " + t[i] + ":" + std::to_string(sc) + ":" + (u_ispunct(c) ? "1" : "0") + ":" + (u_isspace(c) ? "1" : "0");
        }
      } else if (t.size() == 7 && t[0] == "F") {
        preprocess::Options o;
        o.delim = '\t';
        o.min_chars = boost::lexical_cast<size_t>(t[1]);
        o.character_run = boost::lexical_cast<size_t>(t[2]);
        o.min_punct_sample_size = boost::lexical_cast<size_t>(t[3]);
        o.max_common_inherited = boost::lexical_cast<float>(t[4]);
        o.min_punct = boost::lexical_cast<float>(t[5]);
        o.min_scripts = 0.9f;
        std::string f = t[6] == "-" ? std::string() : hx::unhex(t[6]);
        preprocess::SimpleCleaningFilter filter(o);
        out = filter(util::StringPiece(f.data(), f.size())) ? "1" : "0";
      } else if (t.size() == 2 && t[0] == "SN") {
        // script names (comma separated) -> the codes ScriptStringsToCodes puts into Options::scripts
        std::vector<std::string> names;
        std::string cur;
        for (char ch : t[1]) { if (ch == ',') { names.push_back(cur); cur.clear(); } else cur.push_back(ch); }
        names.push_back(cur);
        std::vector<UScriptCode> codes;
        preprocess::ScriptStringsToCodes(names, codes);
        for (size_t i = 0; i < codes.size(); ++i) { if (i) out += ","; out += std::to_string((int)codes[i]); }
      } else if (t.size() == 9 && t[0] == "FS") {
        preprocess::Options o;
        o.delim = '\t';
        o.min_chars = boost::lexical_cast<size_t>(t[1]);
        o.character_run = boost::lexical_cast<size_t>(t[2]);
        o.min_punct_sample_size = boost::lexical_cast<size_t>(t[3]);
        o.max_common_inherited = boost::lexical_cast<float>(t[4]);
        o.min_punct = boost::lexical_cast<float>(t[5]);
        o.min_scripts = boost::lexical_cast<float>(t[6]);
        std::string cur;
        for (char ch : t[7]) { if (ch == ',') { o.scripts.push_back((UScriptCode)atoi(cur.c_str())); cur.clear(); } else cur.push_back(ch); }
        if (t[7] != "-") o.scripts.push_back((UScriptCode)atoi(cur.c_str()));
        std::string f = t[8] == "-" ? std::string() : hx::unhex(t[8]);
        preprocess::SimpleCleaningFilter filter(o);
        out = filter(util::StringPiece(f.data(), f.size())) ? "1" : "0";
      } else if (t.size() == 2 && t[0] == "R") {
        std::vector<preprocess::FieldRange> r;
        preprocess::ParseFields(t[1].c_str(), r);
        preprocess::DefragmentFields(r);
        for (size_t i = 0; i < r.size(); ++i) {
          if (i) out += ",";
          out += std::to_string(r[i].begin) + ":" + (r[i].end == preprocess::FieldRange::kInfiniteEnd ? std::string("inf") : std::to_string(r[i].end));
        }
      } else {
        out = "?";
      }
    } catch (const std::exception &e) {
      out = std::string("EXC");
    }
    std::cout << (out.empty() ? "-" : out) << "\n";
    std::cout.flush();
  }
  return 0;
}
