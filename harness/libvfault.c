/* LD_PRELOAD fault injector for property C11 (and C20's runs under faults).
 *
 * Environment (read once, in the constructor; LD_PRELOAD is then removed from
 * the environment so that exec'ed children of the tool are NOT interposed, and
 * an atfork handler switches the injector off in forked-but-not-yet-exec'ed
 * children):
 *   VFAULT_OP     read | write | fsync | close     the call class to fail
 *   VFAULT_FD     N | any                          descriptor filter (any = every fd except 2)
 *   VFAULT_K      k >= 1                           the k-th matching call fails (0 / unset: none)
 *   VFAULT_ERRNO  number                           errno delivered (default 5 = EIO)
 *   VFAULT_STICKY 1                                every matching call from the k-th on fails
 *   VFAULT_ONLY   name                             inject only in the process whose executable has this basename
 *   VFAULT_LOG    path                             append one line per read/write/fsync/close on a
 *                                                  non-stderr fd:  "<op> <fd> <req> <ret> <errno>\n"
 * A failed call does not reach the kernel (returns -1 with errno set).
 * Only calls made through the PLT are seen: glibc's own stdio writes are not
 * (the iostream tools are therefore exercised with real kernel failures,
 * see checks/C11.py).
 */
#define _GNU_SOURCE
#include <dlfcn.h>
#include <errno.h>
#include <fcntl.h>
#include <pthread.h>
#include <stdio.h>
#include <stdlib.h>
#include <string.h>
#include <sys/syscall.h>
#include <unistd.h>

enum { OP_NONE = 0, OP_READ, OP_WRITE, OP_FSYNC, OP_CLOSE };
static const char *op_names[] = {"none", "read", "write", "fsync", "close"};

static int cfg_op = OP_NONE;
static int cfg_fd = -2;          /* -1 = any (except 2) */
static long cfg_k = 0;
static int cfg_errno = EIO;
static int cfg_sticky = 0;
static int log_fd = -1;
static volatile int enabled = 0;
static long counter = 0;
static pthread_mutex_t mu = PTHREAD_MUTEX_INITIALIZER;

static void in_child(void) { enabled = 0; log_fd = -1; }

__attribute__((constructor)) static void vfault_init(void) {
  const char *s;
  if ((s = getenv("VFAULT_OP"))) {
    for (int i = 1; i <= 4; ++i) if (!strcmp(s, op_names[i])) cfg_op = i;
  }
  if ((s = getenv("VFAULT_FD"))) cfg_fd = !strcmp(s, "any") ? -1 : atoi(s);
  if ((s = getenv("VFAULT_K"))) cfg_k = atol(s);
  if ((s = getenv("VFAULT_ERRNO"))) cfg_errno = atoi(s);
  if ((s = getenv("VFAULT_STICKY"))) cfg_sticky = atoi(s);
  if ((s = getenv("VFAULT_LOG"))) {
    int fd = (int)syscall(SYS_open, s, O_WRONLY | O_APPEND | O_CREAT | O_CLOEXEC, 0644);
    if (fd >= 0) {
      /* move it out of the way of the tool's own descriptors */
      int hi = (int)syscall(SYS_fcntl, fd, F_DUPFD_CLOEXEC, 200);
      if (hi >= 0) { syscall(SYS_close, fd); fd = hi; }
      log_fd = fd;
    }
  }
  /* VFAULT_ONLY=<basename>: stay passive (and keep the environment for the exec'ed program) unless this
     process runs that executable: lets the injector pass through launchers such as valgrind or env */
  if ((s = getenv("VFAULT_ONLY"))) {
    char exe[4096];
    ssize_t n = readlink("/proc/self/exe", exe, sizeof exe - 1);
    const char *base;
    if (n < 0) n = 0;
    exe[n] = 0;
    base = strrchr(exe, '/');
    base = base ? base + 1 : exe;
    if (strcmp(base, s)) {
      if (log_fd >= 0) { syscall(SYS_close, log_fd); log_fd = -1; }
      return;
    }
  }
  unsetenv("LD_PRELOAD");
  unsetenv("VFAULT_K");
  unsetenv("VFAULT_LOG");
  pthread_atfork(NULL, NULL, in_child);
  enabled = 1;
}

static void emit(int op, int fd, long req, long ret, int err) {
  if (log_fd < 0) return;
  char buf[96];
  int n = snprintf(buf, sizeof buf, "%s %d %ld %ld %d\n", op_names[op], fd, req, ret, ret < 0 ? err : 0);
  syscall(SYS_write, log_fd, buf, (size_t)n);
}

/* returns 1 when this call must fail */
static int decide(int op, int fd) {
  if (!enabled || fd == 2 || fd == log_fd) return 0;
  if (op != cfg_op || cfg_k <= 0) return 0;
  if (cfg_fd != -1 && cfg_fd != fd) return 0;
  pthread_mutex_lock(&mu);
  long c = ++counter;
  pthread_mutex_unlock(&mu);
  return cfg_sticky ? c >= cfg_k : c == cfg_k;
}

static int watched(int fd) { return enabled && fd != 2 && fd != log_fd; }

ssize_t read(int fd, void *buf, size_t n) {
  if (decide(OP_READ, fd)) { emit(OP_READ, fd, (long)n, -1, cfg_errno); errno = cfg_errno; return -1; }
  ssize_t r = syscall(SYS_read, fd, buf, n);
  if (watched(fd)) { int e = errno; emit(OP_READ, fd, (long)n, (long)r, e); errno = e; }
  return r;
}

ssize_t write(int fd, const void *buf, size_t n) {
  if (decide(OP_WRITE, fd)) { emit(OP_WRITE, fd, (long)n, -1, cfg_errno); errno = cfg_errno; return -1; }
  ssize_t r = syscall(SYS_write, fd, buf, n);
  if (watched(fd)) { int e = errno; emit(OP_WRITE, fd, (long)n, (long)r, e); errno = e; }
  return r;
}

int fsync(int fd) {
  if (decide(OP_FSYNC, fd)) { emit(OP_FSYNC, fd, 0, -1, cfg_errno); errno = cfg_errno; return -1; }
  int r = (int)syscall(SYS_fsync, fd);
  if (watched(fd)) { int e = errno; emit(OP_FSYNC, fd, 0, r, e); errno = e; }
  return r;
}

int close(int fd) {
  if (decide(OP_CLOSE, fd)) {
    /* like the kernel: the descriptor is released even when close reports an error */
    syscall(SYS_close, fd);
    emit(OP_CLOSE, fd, 0, -1, cfg_errno); errno = cfg_errno; return -1;
  }
  int w = watched(fd);
  int r = (int)syscall(SYS_close, fd);
  if (w) { int e = errno; emit(OP_CLOSE, fd, 0, r, e); errno = e; }
  return r;
}
