// Harness for the set-based / UTF-8 line filters of property C18.
//   K <seed> <hexline>...    util::MurmurHashNative(line, seed) for each line (decimal)
//   W <hexline>...           util::IsUTF8 for each line (0/1)
//   S <hexline>...           StripSpaces of commoncrawl_dedupe_main.cc for each line (hex, '-' = empty)
//   N <hexline>...           IsNewLine of commoncrawl_dedupe_main.cc over the lines with ONE table (0/1 per line)
#include "hx_common.hh"
#include "util/murmur_hash.hh"
#include "util/utf8.hh"
#include <string.h>
#define main commoncrawl_dedupe_main_renamed
#include "preprocess/commoncrawl_dedupe_main.cc"
#undef main

static std::string Undash(const std::string &h) { return h == "-" ? std::string() : hx::unhex(h); }
static std::string Dash(const std::string &h) { return h.empty() ? std::string("-") : h; }

int main() {
  std::string line;
  while (std::getline(std::cin, line)) {
    std::vector<std::string> t = hx::split_ws(line);
    std::string out;
    if (t.size() >= 2 && t[0] == "K") {
      uint64_t seed = strtoull(t[1].c_str(), NULL, 10);
      for (size_t i = 2; i < t.size(); ++i) {
        std::string l = Undash(t[i]);
        if (!out.empty()) out += " ";
        out += std::to_string(util::MurmurHashNative(l.data(), l.size(), seed));
      }
    } else if (t.size() >= 1 && t[0] == "W") {
      for (size_t i = 1; i < t.size(); ++i) {
        std::string l = Undash(t[i]);
        out += util::IsUTF8(util::StringPiece(l.data(), l.size())) ? "1" : "0";
      }
    } else if (t.size() >= 1 && t[0] == "S") {
      for (size_t i = 1; i < t.size(); ++i) {
        std::string l = Undash(t[i]);
        util::StringPiece s = StripSpaces(util::StringPiece(l.data(), l.size()));
        if (!out.empty()) out += " ";
        out += Dash(hx::hex(s.data(), s.size()));
      }
    } else {
      out = "?";
    }
    std::cout << (out.empty() ? "-" : out) << "\n";
    std::cout.flush();
  }
  return 0;
}
