// Correspondence harness for preprocess/foldfilter_main.cc: calls the real wrap_lines
// (anonymous namespace, reached by including the translation unit with main renamed).
// Same line protocol as ocaml/C07_driver.ml.
#define main foldfilter_real_main
#include "preprocess/foldfilter_main.cc"
#undef main
#include "hx_common.hh"
#include <cstdlib>

static std::string hx_or_dash(const util::StringPiece &s) {
  return s.size() ? hx::hex(s.data(), s.size()) : std::string("-");
}

int main() {
  std::string line;
  while (std::getline(std::cin, line)) {
    std::vector<std::string> t = hx::split_ws(line);
    if (t.size() == 5 && t[0] == "W") {
      wrap_options o;
      o.column_width = strtoull(t[1].c_str(), NULL, 10);
      o.keep_delimiters_in_lines = t[2] == "1";
      o.delimiters.clear();
      if (t[3] != "-") {
        std::istringstream is(t[3]);
        std::string tok;
        while (std::getline(is, tok, ',')) o.delimiters.push_back((char32_t)strtoul(tok.c_str(), NULL, 10));
      }
      std::string text = t[4] == "-" ? std::string() : hx::unhex(t[4]);
      std::deque<util::StringPiece> lines;
      std::vector<util::StringPiece> dels;
      try {
        wrap_lines(util::StringPiece(text.data(), text.size()), o, lines, dels);
        if (lines.size() != dels.size()) { std::cout << "MISMATCH\n"; continue; }
        std::cout << "OK " << lines.size();
        for (size_t i = 0; i < lines.size(); ++i)
          std::cout << ' ' << hx_or_dash(lines[i]) << ' ' << hx_or_dash(dels[i]);
        std::cout << '\n';
      } catch (util::NotUTF8Exception &e) {
        std::cout << "BAD\n";
      }
    } else if (t.size() == 1 && t[0] == "DEFAULTS") {
      wrap_options o;
      std::cout << "OK " << o.column_width << ' ' << (o.keep_delimiters_in_lines ? 1 : 0) << ' ';
      for (size_t i = 0; i < o.delimiters.size(); ++i) std::cout << (i ? "," : "") << (unsigned long)o.delimiters[i];
      // what -s does to the flag
      program_options po;
      char a0[] = "foldfilter", a1[] = "-s", a2[] = "cat";
      char *av[] = {a0, a1, a2, NULL};
      optind = 1;
      parse_options(po, 3, av);
      std::cout << ' ' << (po.keep_delimiters_in_lines ? 1 : 0) << '\n';
    } else {
      std::cout << "?\n";
    }
  }
  return 0;
}
