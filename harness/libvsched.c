/* LD_PRELOAD library: random delays at the scheduling points the code under test
 * offers through its weak PREPROCESS_VERIF hooks (util/verif_hooks.hh).  A thread that
 * reaches a hook sleeps, with probability VSCHED_PERMILLE/1000, for up to VSCHED_USEC
 * microseconds.  This widens every window between two synchronisation operations of
 * util::PCQueue (after a semaphore wait, inside and right after the index mutexes,
 * before and after a post) without changing what the operations do.
 * Used by checks/C17.py for warc_parallel with several reader threads.
 *   VSCHED_SEED      seed (default 1)
 *   VSCHED_PERMILLE  probability of a delay at a hook (default 20)
 *   VSCHED_USEC      longest delay in microseconds (default 200)                     */
#define _GNU_SOURCE
#include <stdint.h>
#include <stdlib.h>
#include <unistd.h>
#include <sched.h>
#include <sys/syscall.h>

static __thread uint64_t state;
static unsigned permille = 20, usec = 200;
static uint64_t seed = 1;
static int configured;

static void configure(void) {
  const char *s;
  if ((s = getenv("VSCHED_SEED"))) seed = strtoull(s, 0, 10);
  if ((s = getenv("VSCHED_PERMILLE"))) permille = (unsigned)strtoul(s, 0, 10);
  if ((s = getenv("VSCHED_USEC"))) usec = (unsigned)strtoul(s, 0, 10);
  configured = 1;
}

static uint64_t next(void) {
  if (!state) {
    if (!configured) configure();
    state = (seed + 1) * 0x9E3779B97F4A7C15ull ^ ((uint64_t)syscall(SYS_gettid) * 0xBF58476D1CE4E5B9ull);
    if (!state) state = 1;
  }
  state ^= state << 13; state ^= state >> 7; state ^= state << 17;
  return state;
}

static void point(void) {
  uint64_t r = next();
  if (r % 1000 < permille) {
    unsigned d = usec ? (unsigned)((r >> 20) % (usec + 1)) : 0;
    if (d) usleep(d); else sched_yield();
  }
}

void preprocess_verif_sem_wait(void *sem) { (void)sem; point(); }
void preprocess_verif_sem_post(void *sem) { (void)sem; point(); }
void preprocess_verif_sem_posted(void *sem) { (void)sem; point(); }
void preprocess_verif_mutex_lock(void *m) { (void)m; point(); }
void preprocess_verif_mutex_unlock(void *m) { (void)m; point(); }
void preprocess_verif_yield(const char *where) { (void)where; point(); }
