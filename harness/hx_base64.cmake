set(HX_LIBS base64)
