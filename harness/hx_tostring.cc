// Correspondence harness for C20 (same line protocol as ocaml/C20_driver.ml):
//   K                                   reserved sizes and buffer sizes as compiled
//   U32|U64|I32|I64|U16|I16|P|B <v>      util::ToString(value, buf): "OK <hex of [buf,ret)> <footprint>"
//   DD <bits16hex> / FD <bits8hex>       what the digit generator delivers: "<sign> <digits> <decimal_point>" | inf | -inf | nan
//   DL D|F <decomposition...> <bits>     util::ToString(double/float from bits): "OK <hex> <footprint>"
//   TS <op>...                           the same ops on a real util::ThreadedBufferedStream (blocks handed to the writer thread)
//   SS <op>...                           the same ops on a real util::StringStream (length and checksum of str())
//   ST <op>...                           real util::FileStream driven by ops (w:<n> p u64:<v> i64:<v> u32:<v> i32:<v> d:<bits> f:<bits> fl),
//                                        prints the sizes of the writer's write() calls and a checksum of all bytes
// footprint = number of leading bytes of the destination the call stored to (sentinel 0xAA scan).
// With HX_EXACT=1 the destination is a heap block of exactly ToStringBuf<T>::kBytes bytes, so that
// AddressSanitizer (asan flavour) reports any store beyond the reservation.
#include "hx_common.hh"
#include "util/double-conversion/double-conversion.h"
#include "util/file_stream.hh"
#include "util/float_to_string.hh"
#include "util/integer_to_string.hh"
#include "util/string_stream.hh"
#include "util/threaded_buffered_stream.hh"

#include <cstdlib>
#include <cstddef>
#include <limits>
#include <cstring>
#include <stdint.h>
#include <sys/syscall.h>
#include <unistd.h>

namespace {
bool g_exact = false;
bool g_capture = false;
std::vector<size_t> g_sizes;
uint64_t g_sum_a = 1, g_sum_b = 0;

template <class T> void Format(T value) {
  const size_t kB = util::ToStringBuf<T>::kBytes;
  size_t cap = g_exact ? kB : 64;
  char *buf = static_cast<char*>(malloc(cap));
  memset(buf, 0xAA, cap);
  char *end = util::ToString(value, buf);
  size_t foot = 0;
  for (size_t i = 0; i < cap; ++i) if ((unsigned char)buf[i] != 0xAA) foot = i + 1;
  std::cout << "OK " << hx::hex(buf, end - buf) << ' ' << foot << "\n";
  free(buf);
}

double DoubleOfBits(const std::string &h) { uint64_t b = std::strtoull(h.c_str(), NULL, 16); double d; memcpy(&d, &b, 8); return d; }
float FloatOfBits(const std::string &h) { uint32_t b = (uint32_t)std::strtoul(h.c_str(), NULL, 16); float f; memcpy(&f, &b, 4); return f; }

void Decompose(double v, bool single) {
  using double_conversion::DoubleToStringConverter;
  if (v != v) { std::cout << "nan\n"; return; }
  if (v - v != 0) { std::cout << (v < 0 ? "-inf" : "inf") << "\n"; return; }
  char rep[DoubleToStringConverter::kBase10MaximalLength + 1];
  bool sign; int len, dp;
  DoubleToStringConverter::DoubleToAscii(v, single ? DoubleToStringConverter::SHORTEST_SINGLE : DoubleToStringConverter::SHORTEST, 0,
                                         rep, sizeof rep, &sign, &len, &dp);
  std::cout << (sign ? 1 : 0) << ' ' << std::string(rep, len) << ' ' << dp << "\n";
}
}  // namespace

// the writer's write(2) calls of the stream scenario are captured here
extern "C" ssize_t write(int fd, const void *buf, size_t n) {
  if (!g_capture || fd != 99) return syscall(SYS_write, fd, buf, n);
  g_sizes.push_back(n);
  const unsigned char *p = static_cast<const unsigned char*>(buf);
  for (size_t i = 0; i < n; ++i) { g_sum_a = (g_sum_a + p[i]) % 65521; g_sum_b = (g_sum_b + g_sum_a) % 65521; }
  return (ssize_t)n;
}
extern "C" int fsync(int fd) { if (g_capture && fd == 99) return 0; return (int)syscall(SYS_fsync, fd); }
extern "C" int close(int fd) { if (g_capture && fd == 99) return 0; return (int)syscall(SYS_close, fd); }

namespace {
// Writer for ThreadedBufferedStream: records what the writer thread is handed
struct CaptureWriter {
  void write(const void *data, std::size_t n) {
    g_sizes.push_back(n);
    const unsigned char *p = static_cast<const unsigned char*>(data);
    for (size_t i = 0; i < n; ++i) { g_sum_a = (g_sum_a + p[i]) % 65521; g_sum_b = (g_sum_b + g_sum_a) % 65521; }
  }
  void flush() {}
};

template <class S> void Drive(S &out, const std::vector<std::string> &t, bool can_flush) {
  for (size_t i = 1; i < t.size(); ++i) {
    const std::string &o = t[i];
    if (o[0] == 'w') { std::string s(std::strtoul(o.c_str() + 2, NULL, 10), 'x'); out << s; }
    else if (o == "p") out << 'c';
    else if (!o.compare(0, 4, "u64:")) out << (uint64_t)std::strtoull(o.c_str() + 4, NULL, 10);
    else if (!o.compare(0, 4, "i64:")) out << (int64_t)std::strtoll(o.c_str() + 4, NULL, 10);
    else if (!o.compare(0, 4, "u32:")) out << (uint32_t)std::strtoul(o.c_str() + 4, NULL, 10);
    else if (!o.compare(0, 4, "i32:")) out << (int32_t)std::strtol(o.c_str() + 4, NULL, 10);
    else if (!o.compare(0, 2, "d:")) out << DoubleOfBits(o.substr(2, o.find(':', 2) - 2));
    else if (!o.compare(0, 2, "f:")) out << FloatOfBits(o.substr(2, o.find(':', 2) - 2));
    (void)can_flush;
  }
}

void ThreadedStream(const std::vector<std::string> &t) {
  g_sizes.clear(); g_sum_a = 1; g_sum_b = 0;
  {
    util::ThreadedBufferedStream<CaptureWriter> out;
    Drive(out, t, false);
  }
  std::cout << "OK";
  for (size_t i = 0; i < g_sizes.size(); ++i) std::cout << ' ' << g_sizes[i];
  std::cout << " sum=" << g_sum_b * 65536 + g_sum_a << "\n";
}

void StringStreamCase(const std::vector<std::string> &t) {
  util::StringStream out;
  Drive(out, t, false);
  const std::string &s = out.str();
  g_sum_a = 1; g_sum_b = 0;
  for (size_t i = 0; i < s.size(); ++i) { g_sum_a = (g_sum_a + (unsigned char)s[i]) % 65521; g_sum_b = (g_sum_b + g_sum_a) % 65521; }
  std::cout << "OK " << s.size() << " sum=" << g_sum_b * 65536 + g_sum_a << "\n";
}

// every fundamental type that FakeOStream::operator<< accepts, at its extremes, through the real dispatch (Coerce)
enum SmallEnum { kEnumNeg = -7, kEnumPos = 12 };
template <class T> void Both(util::StringStream &out, const char *name) {
  out << name << '=' << std::numeric_limits<T>::min() << ',' << std::numeric_limits<T>::max() << ' ';
}
void Dispatch() {
  util::StringStream out;
  Both<short>(out, "short"); Both<unsigned short>(out, "ushort"); Both<int>(out, "int"); Both<unsigned>(out, "uint");
  Both<long>(out, "long"); Both<unsigned long>(out, "ulong"); Both<long long>(out, "llong"); Both<unsigned long long>(out, "ullong");
  Both<std::size_t>(out, "size_t"); Both<int16_t>(out, "int16"); Both<uint16_t>(out, "uint16"); Both<int32_t>(out, "int32");
  Both<uint32_t>(out, "uint32"); Both<int64_t>(out, "int64"); Both<uint64_t>(out, "uint64"); Both<std::ptrdiff_t>(out, "ptrdiff");
  out << "bool=" << false << ',' << true << ' ';
  out << "char=" << 'A' << ',' << static_cast<signed char>('B') << ',' << static_cast<unsigned char>('C') << ' ';
  out << "enum=" << kEnumNeg << ',' << kEnumPos << ' ';
  out << "cstr=" << "lit" << ',' << std::string("str") << ',' << util::StringPiece("piece") << ' ';
  out << "ptr=" << static_cast<const void*>(0) << ',' << reinterpret_cast<const void*>(static_cast<uintptr_t>(0xdeadbeef)) << ' ';
  out << "dbl=" << 0.5 << ',' << -1e300 << ',' << 1.0f << ',' << -2.5e-7f;
  std::cout << out.str() << "\n";
}

void Stream(const std::vector<std::string> &t) {
  g_sizes.clear(); g_sum_a = 1; g_sum_b = 0;
  g_capture = true;
  {
    util::FileStream out(99);
    for (size_t i = 1; i < t.size(); ++i) {
      const std::string &o = t[i];
      if (o[0] == 'w') { std::string s(std::strtoul(o.c_str() + 2, NULL, 10), 'x'); out << s; }
      else if (o == "p") out << 'c';
      else if (o == "fl") out.flush();
      else if (!o.compare(0, 4, "u64:")) out << (uint64_t)std::strtoull(o.c_str() + 4, NULL, 10);
      else if (!o.compare(0, 4, "i64:")) out << (int64_t)std::strtoll(o.c_str() + 4, NULL, 10);
      else if (!o.compare(0, 4, "u32:")) out << (uint32_t)std::strtoul(o.c_str() + 4, NULL, 10);
      else if (!o.compare(0, 4, "i32:")) out << (int32_t)std::strtol(o.c_str() + 4, NULL, 10);
      else if (!o.compare(0, 2, "d:")) out << DoubleOfBits(o.substr(2, o.find(':', 2) - 2));
      else if (!o.compare(0, 2, "f:")) out << FloatOfBits(o.substr(2, o.find(':', 2) - 2));
    }
  }
  g_capture = false;
  std::cout << "OK";
  for (size_t i = 0; i < g_sizes.size(); ++i) std::cout << ' ' << g_sizes[i];
  std::cout << " sum=" << g_sum_b * 65536 + g_sum_a << "\n";
}
}  // namespace

int main() {
  g_exact = getenv("HX_EXACT") != NULL;
  std::string line;
  while (std::getline(std::cin, line)) {
    std::vector<std::string> t = hx::split_ws(line);
    if (t.empty()) { std::cout << "?\n"; continue; }
    const std::string &c = t[0];
    if (c == "K") {
      std::cout << "bool=" << (int)util::ToStringBuf<bool>::kBytes << " u16=" << (int)util::ToStringBuf<uint16_t>::kBytes
                << " i16=" << (int)util::ToStringBuf<int16_t>::kBytes << " u32=" << (int)util::ToStringBuf<uint32_t>::kBytes
                << " i32=" << (int)util::ToStringBuf<int32_t>::kBytes << " u64=" << (int)util::ToStringBuf<uint64_t>::kBytes
                << " i64=" << (int)util::ToStringBuf<int64_t>::kBytes << " ptr=" << (int)util::ToStringBuf<const void*>::kBytes
                << " double=" << util::ToStringBuf<double>::kBytes << " float=" << util::ToStringBuf<float>::kBytes
                << " max=" << (int)util::kToStringMaxBytes << " stream=" << util::FileStream(dup(1)).kBufferSize
                << " block=" << util::BlockQueue::kBlockSize << " blocks=" << util::BlockQueue::kBlocks << "\n";
    } else if (t.size() >= 2 && c == "U32") Format<uint32_t>((uint32_t)std::strtoul(t[1].c_str(), NULL, 10));
    else if (t.size() >= 2 && c == "U64") Format<uint64_t>((uint64_t)std::strtoull(t[1].c_str(), NULL, 10));
    else if (t.size() >= 2 && c == "I32") Format<int32_t>((int32_t)std::strtol(t[1].c_str(), NULL, 10));
    else if (t.size() >= 2 && c == "I64") Format<int64_t>((int64_t)std::strtoll(t[1].c_str(), NULL, 10));
    else if (t.size() >= 2 && c == "U16") Format<uint16_t>((uint16_t)std::strtoul(t[1].c_str(), NULL, 10));
    else if (t.size() >= 2 && c == "I16") Format<int16_t>((int16_t)std::strtol(t[1].c_str(), NULL, 10));
    else if (t.size() >= 2 && c == "B") Format<bool>(t[1] != "0");
    else if (t.size() >= 2 && c == "P") Format<const void*>(reinterpret_cast<const void*>((uintptr_t)std::strtoull(t[1].c_str(), NULL, 10)));
    else if (t.size() >= 2 && c == "DD") Decompose(DoubleOfBits(t[1]), false);
    else if (t.size() >= 2 && c == "FD") Decompose(FloatOfBits(t[1]), true);
    else if (t.size() >= 3 && c == "DL" && t[1] == "D") Format<double>(DoubleOfBits(t.back()));
    else if (t.size() >= 3 && c == "DL" && t[1] == "F") Format<float>(FloatOfBits(t.back()));
    else if (c == "ST") Stream(t);
    else if (c == "TS") ThreadedStream(t);
    else if (c == "SS") StringStreamCase(t);
    else if (c == "DISPATCH") Dispatch();
    else std::cout << "?\n";
  }
  return 0;
}
