// Harness on the library API of util/utf8_icu.cc and on ICU itself (the model's
// environment functions): same line protocol as ocaml/C19_driver.ml for F;
// L/N/S deliver ICU's toLower / NFKC / u_isspace for the strings of a run.
#include "hx_common.hh"
#include "util/utf8_icu.hh"
#include "util/utf8.hh"
#include <unicode/unistr.h>
#include <unicode/uchar.h>
#include <unicode/normalizer2.h>
#include <cstdlib>

using U_ICU_NAMESPACE::UnicodeString;

static std::string arg(const std::string &h) { return h == "-" ? std::string() : hx::unhex(h); }
static std::string out(const std::string &s) { return s.empty() ? std::string("-") : hx::hex(s); }

int main() {
  std::string line;
  while (std::getline(std::cin, line)) {
    std::vector<std::string> t = hx::split_ws(line);
    try {
      if (t.size() == 3 && t[0] == "F") {
        util::Flatten flat(t[1]);
        std::string in = arg(t[2]);
        UnicodeString u(UnicodeString::fromUTF8(U_ICU_NAMESPACE::StringPiece(in.data(), in.size()))), r;
        flat.Apply(u, r);
        std::string o;
        r.toUTF8String(o);
        // the StringPiece overload must agree
        std::string o2;
        flat.Apply(util::StringPiece(in.data(), in.size()), o2);
        std::cout << (o == o2 ? "OK " : "OVERLOADS-DIFFER ") << out(o) << "\n";
      } else if (t.size() == 2 && t[0] == "L") {
        std::string in = arg(t[1]);
        UnicodeString u(UnicodeString::fromUTF8(U_ICU_NAMESPACE::StringPiece(in.data(), in.size())));
        u.toLower();
        std::string o;
        u.toUTF8String(o);
        std::cout << "OK " << out(o) << "\n";
      } else if (t.size() == 2 && t[0] == "N") {
        // ICU's NFKC itself (the model's environment function), NOT util::Normalize
        std::string in = arg(t[1]);
        UnicodeString u(UnicodeString::fromUTF8(U_ICU_NAMESPACE::StringPiece(in.data(), in.size())));
        UErrorCode ec = U_ZERO_ERROR;
        const U_ICU_NAMESPACE::Normalizer2 *n2 = U_ICU_NAMESPACE::Normalizer2::getNFKCInstance(ec);
        UnicodeString r = n2->normalize(u, ec);
        if (U_FAILURE(ec)) { std::cout << "EXC nfkc\n"; continue; }
        std::string o;
        r.toUTF8String(o);
        std::cout << "OK " << out(o) << "\n";
      } else if (t.size() == 2 && t[0] == "NU") {
        // the code under test: util::Normalize, both overloads
        std::string in = arg(t[1]);
        UnicodeString u(UnicodeString::fromUTF8(U_ICU_NAMESPACE::StringPiece(in.data(), in.size()))), r;
        util::Normalize(u, r);
        std::string o, o2;
        r.toUTF8String(o);
        util::Normalize(util::StringPiece(in.data(), in.size()), o2);
        std::cout << (o == o2 ? "OK " : "OVERLOADS-DIFFER ") << out(o) << "\n";
      } else if (t.size() == 2 && t[0] == "LU") {
        // the code under test: util::ToLower (UTF-8 API)
        std::string in = arg(t[1]), o;
        util::ToLower(util::StringPiece(in.data(), in.size()), o);
        std::cout << "OK " << out(o) << "\n";
      } else if (t.size() == 2 && t[0] == "S") {
        std::cout << "OK " << (u_isspace((UChar32)strtol(t[1].c_str(), NULL, 10)) ? 1 : 0) << "\n";
      } else if (t.size() == 2 && t[0] == "U") {   // UTF-16 units of fromUTF8, and back
        std::string in = arg(t[1]);
        UnicodeString u(UnicodeString::fromUTF8(U_ICU_NAMESPACE::StringPiece(in.data(), in.size())));
        std::cout << "OK";
        for (int32_t i = 0; i < u.length(); ++i) std::cout << ' ' << (unsigned)u.charAt(i);
        std::string o;
        u.toUTF8String(o);
        std::cout << " | " << out(o) << "\n";
      } else {
        std::cout << "?\n";
      }
    } catch (util::UnsupportedLanguageException &e) {
      std::cout << "NOLANG\n";
    } catch (std::exception &e) {
      std::cout << "EXC " << e.what() << "\n";
    }
  }
  return 0;
}
