/* LD_PRELOAD interposer: logs every streaming-codec call of zlib, bzip2 and
 * liblzma made by the process (C15, used by C06/C17 too).
 *
 *   VCODEC_LOG=<path>   log file (opened O_APPEND; one write(2) per line, so
 *                       lines of different threads never interleave)
 *   VCODEC_DATA=1       also log consumed input / produced output bytes (hex)
 *
 * Lines:
 *   N <id> <fn>                                   a codec state was (re)initialised
 *   C <id> <fn> <flag> <avail_in> <avail_out>     before the call
 *   R <id> <fn> <avail_in'> <avail_out'> <rc> <consumed-hex|-> <produced-hex|->   after the call
 *   M <text>                                      marker written by the harness (vcodec_mark)
 * <id> is the address of the stream struct.  The interposer changes nothing:
 * arguments and results are passed through untouched.
 */
#define _GNU_SOURCE
#include <dlfcn.h>
#include <fcntl.h>
#include <stdio.h>
#include <stdlib.h>
#include <string.h>
#include <unistd.h>
#include <zlib.h>
#include <bzlib.h>
#include <lzma.h>

static int log_fd = -2;
static int log_data = 0;
/* at most this many lines between two markers (a spinning driver loop must not fill the disk) */
static long max_lines = 20000;
static volatile long lines_since_mark = 0;

static void vc_open(void) {
  if (log_fd != -2) return;
  const char *p = getenv("VCODEC_LOG");
  const char *d = getenv("VCODEC_DATA");
  log_data = d && d[0] == '1';
  log_fd = p ? open(p, O_WRONLY | O_APPEND | O_CREAT | O_CLOEXEC, 0644) : -1;
  const char *m = getenv("VCODEC_MAX_LINES");
  if (m) max_lines = atol(m);
}

static void vc_line(const char *s, size_t n) {
  if (log_fd < 0) return;
  long k = __sync_add_and_fetch(&lines_since_mark, 1);
  if (k > max_lines) {
    if (k == max_lines + 1) {
      static const char t[] = "X log truncated\n";
      ssize_t ignored = write(log_fd, t, sizeof t - 1);
      (void)ignored;
    }
    return;
  }
  while (n) {
    ssize_t w = write(log_fd, s, n);
    if (w <= 0) return;
    s += w;
    n -= (size_t)w;
  }
}

static void *vc_sym(const char *name) {
  void *f = dlsym(RTLD_NEXT, name);
  if (!f) {
    fprintf(stderr, "libvcodec: cannot resolve %s\n", name);
    abort();
  }
  return f;
}

void vcodec_mark(const char *text) {
  vc_open();
  if (log_fd < 0) return;
  lines_since_mark = 0;
  char buf[512];
  int n = snprintf(buf, sizeof buf, "M %s\n", text);
  if (n > 0) vc_line(buf, (size_t)(n < (int)sizeof buf ? n : (int)sizeof buf - 1));
}

static void vc_new(const void *id, const char *fn) {
  vc_open();
  if (log_fd < 0) return;
  char buf[128];
  int n = snprintf(buf, sizeof buf, "N %p %s\n", id, fn);
  vc_line(buf, (size_t)n);
}

static void vc_call(const void *id, const char *fn, int flag, unsigned long long ain, unsigned long long aout) {
  vc_open();
  if (log_fd < 0) return;
  char buf[160];
  int n = snprintf(buf, sizeof buf, "C %p %s %d %llu %llu\n", id, fn, flag, ain, aout);
  vc_line(buf, (size_t)n);
}

static void vc_hex(char *dst, const unsigned char *p, size_t n) {
  static const char *d = "0123456789abcdef";
  for (size_t i = 0; i < n; ++i) {
    dst[2 * i] = d[p[i] >> 4];
    dst[2 * i + 1] = d[p[i] & 15];
  }
}

static void vc_ret(const void *id, const char *fn, unsigned long long ain, unsigned long long aout, int rc,
                   const unsigned char *in0, size_t consumed, const unsigned char *out0, size_t produced) {
  if (log_fd < 0) return;
  size_t cap = 200 + (log_data ? 2 * (consumed + produced) : 0);
  char *buf = (char *)malloc(cap);
  if (!buf) return;
  int n = snprintf(buf, cap, "R %p %s %llu %llu %d ", id, fn, ain, aout, rc);
  size_t k = (size_t)n;
  if (log_data && consumed) {
    vc_hex(buf + k, in0, consumed);
    k += 2 * consumed;
  } else {
    buf[k++] = '-';
  }
  buf[k++] = ' ';
  if (log_data && produced) {
    vc_hex(buf + k, out0, produced);
    k += 2 * produced;
  } else {
    buf[k++] = '-';
  }
  buf[k++] = '\n';
  vc_line(buf, k);
  free(buf);
}

/* ---------------------------------------------------------------- zlib */
int inflate(z_streamp s, int flush) {
  static int (*real)(z_streamp, int);
  if (!real) real = (int (*)(z_streamp, int))vc_sym("inflate");
  const unsigned char *in0 = s->next_in, *out0 = s->next_out;
  unsigned ain = s->avail_in, aout = s->avail_out;
  vc_call(s, "inflate", flush, ain, aout);
  int rc = real(s, flush);
  vc_ret(s, "inflate", s->avail_in, s->avail_out, rc, in0, ain - s->avail_in, out0, aout - s->avail_out);
  return rc;
}

int deflate(z_streamp s, int flush) {
  static int (*real)(z_streamp, int);
  if (!real) real = (int (*)(z_streamp, int))vc_sym("deflate");
  const unsigned char *in0 = s->next_in, *out0 = s->next_out;
  unsigned ain = s->avail_in, aout = s->avail_out;
  vc_call(s, "deflate", flush, ain, aout);
  int rc = real(s, flush);
  vc_ret(s, "deflate", s->avail_in, s->avail_out, rc, in0, ain - s->avail_in, out0, aout - s->avail_out);
  return rc;
}

int inflateInit2_(z_streamp s, int windowBits, const char *version, int stream_size) {
  static int (*real)(z_streamp, int, const char *, int);
  if (!real) real = (int (*)(z_streamp, int, const char *, int))vc_sym("inflateInit2_");
  vc_new(s, "inflateInit2");
  return real(s, windowBits, version, stream_size);
}

int deflateInit2_(z_streamp s, int level, int method, int windowBits, int memLevel, int strategy,
                  const char *version, int stream_size) {
  static int (*real)(z_streamp, int, int, int, int, int, const char *, int);
  if (!real) real = (int (*)(z_streamp, int, int, int, int, int, const char *, int))vc_sym("deflateInit2_");
  vc_new(s, "deflateInit2");
  return real(s, level, method, windowBits, memLevel, strategy, version, stream_size);
}

int deflateReset(z_streamp s) {
  static int (*real)(z_streamp);
  if (!real) real = (int (*)(z_streamp))vc_sym("deflateReset");
  vc_new(s, "deflateReset");
  return real(s);
}

/* ---------------------------------------------------------------- bzip2 */
int BZ2_bzDecompress(bz_stream *s) {
  static int (*real)(bz_stream *);
  if (!real) real = (int (*)(bz_stream *))vc_sym("BZ2_bzDecompress");
  const unsigned char *in0 = (const unsigned char *)s->next_in, *out0 = (const unsigned char *)s->next_out;
  unsigned ain = s->avail_in, aout = s->avail_out;
  vc_call(s, "bzDecompress", 0, ain, aout);
  int rc = real(s);
  vc_ret(s, "bzDecompress", s->avail_in, s->avail_out, rc, in0, ain - s->avail_in, out0, aout - s->avail_out);
  return rc;
}

int BZ2_bzCompress(bz_stream *s, int action) {
  static int (*real)(bz_stream *, int);
  if (!real) real = (int (*)(bz_stream *, int))vc_sym("BZ2_bzCompress");
  const unsigned char *in0 = (const unsigned char *)s->next_in, *out0 = (const unsigned char *)s->next_out;
  unsigned ain = s->avail_in, aout = s->avail_out;
  vc_call(s, "bzCompress", action, ain, aout);
  int rc = real(s, action);
  vc_ret(s, "bzCompress", s->avail_in, s->avail_out, rc, in0, ain - s->avail_in, out0, aout - s->avail_out);
  return rc;
}

int BZ2_bzDecompressInit(bz_stream *s, int verbosity, int small) {
  static int (*real)(bz_stream *, int, int);
  if (!real) real = (int (*)(bz_stream *, int, int))vc_sym("BZ2_bzDecompressInit");
  vc_new(s, "bzDecompressInit");
  return real(s, verbosity, small);
}

int BZ2_bzCompressInit(bz_stream *s, int blockSize100k, int verbosity, int workFactor) {
  static int (*real)(bz_stream *, int, int, int);
  if (!real) real = (int (*)(bz_stream *, int, int, int))vc_sym("BZ2_bzCompressInit");
  vc_new(s, "bzCompressInit");
  return real(s, blockSize100k, verbosity, workFactor);
}

/* ---------------------------------------------------------------- liblzma */
lzma_ret lzma_code(lzma_stream *s, lzma_action action) {
  static lzma_ret (*real)(lzma_stream *, lzma_action);
  if (!real) real = (lzma_ret(*)(lzma_stream *, lzma_action))vc_sym("lzma_code");
  const unsigned char *in0 = s->next_in, *out0 = s->next_out;
  size_t ain = s->avail_in, aout = s->avail_out;
  vc_call(s, "lzma_code", (int)action, ain, aout);
  lzma_ret rc = real(s, action);
  vc_ret(s, "lzma_code", s->avail_in, s->avail_out, (int)rc, in0, ain - s->avail_in, out0, aout - s->avail_out);
  return rc;
}

lzma_ret lzma_stream_decoder(lzma_stream *s, uint64_t memlimit, uint32_t flags) {
  static lzma_ret (*real)(lzma_stream *, uint64_t, uint32_t);
  if (!real) real = (lzma_ret(*)(lzma_stream *, uint64_t, uint32_t))vc_sym("lzma_stream_decoder");
  vc_new(s, "lzma_stream_decoder");
  return real(s, memlimit, flags);
}
