set(HX_LIBS dl)
