set(HX_LIBS captive_child)
