// Correspondence harness for util/utf8.hh / utf8.cc: same line protocol as ocaml/C12_driver.ml
// (D decode, U IsUTF8, I iterator), plus native exhaustive window sweeps:
//   hx_utf8 SWEEP <tablefile> <k> <threads>
// compares util::DecodeUTF8 on EVERY buffer of exactly k bytes (k = 1..4) with the
// answer composed from the model's 65,536-row pair table (theorem C12_window_composite
// says the composition equals the model's decode_utf8).
#include "hx_common.hh"
#include "util/utf8.hh"
#include <cstring>
#include <fstream>
#include <thread>
#include <mutex>
#include <cstdlib>

struct Cell { bool ok; uint32_t cp; unsigned len; };
static bool operator==(const Cell &a, const Cell &b) { return a.ok == b.ok && (!a.ok || (a.cp == b.cp && a.len == b.len)); }

static Cell RealDecode(const char *b, const char *e) {
  Cell c; c.ok = false; c.cp = 0; c.len = 0;
  size_t len = 99;
  try {
    char32_t cp = util::DecodeUTF8(b, e, &len);
    c.ok = true; c.cp = (uint32_t)cp; c.len = (unsigned)len;
  } catch (const util::NotUTF8Exception &) {
    c.ok = false; c.len = (unsigned)len;   // *mblen = 1 before the throw
  }
  return c;
}

static std::string Show(const Cell &c) {
  if (!c.ok) return "B";
  return std::to_string(c.cp) + "/" + std::to_string(c.len);
}

static Cell ParseCell(const std::string &s) {
  Cell c; c.ok = false; c.cp = 0; c.len = 0;
  if (s == "B") return c;
  size_t slash = s.find('/');
  c.ok = true;
  c.cp = (uint32_t)strtoul(s.substr(0, slash).c_str(), 0, 10);
  c.len = (unsigned)strtoul(s.substr(slash + 1).c_str(), 0, 10);
  return c;
}

static Cell one[256];
static Cell row2[65536], row3[65536], row4[65536];
static inline bool Trail37(unsigned char b) { return b >= 0x80 && b <= 0xBF; }

static Cell Compose3(const Cell &r, unsigned char b2) {
  if (!r.ok) return r;
  if (r.len == 3) { Cell c = r; if (!Trail37(b2)) { c.ok = false; return c; } c.cp = r.cp + (b2 - 128); return c; }
  return r;
}
static Cell Compose4(const Cell &r, unsigned char b2, unsigned char b3) {
  if (!r.ok) return r;
  Cell c = r;
  if (r.len == 4) { if (!(Trail37(b2) && Trail37(b3))) { c.ok = false; return c; } c.cp = r.cp + (b2 - 128) * 64 + (b3 - 128); return c; }
  if (r.len == 3) { if (!Trail37(b2)) { c.ok = false; return c; } c.cp = r.cp + (b2 - 128); return c; }
  return r;
}

static std::mutex mu;
static unsigned long long n_windows = 0, n_mismatch = 0;
static std::vector<std::string> reports;

static void Report(const unsigned char *w, unsigned k, const Cell &impl, const Cell &expect) {
  std::lock_guard<std::mutex> g(mu);
  ++n_mismatch;
  if (reports.size() < 40)
    reports.push_back("MISMATCH " + hx::hex((const char *)w, k) + " impl=" + Show(impl) + " expect=" + Show(expect));
}

// buffers are placed at the END of a heap block of exactly k bytes so that ASan builds see over-reads
static void SweepRange(unsigned k, unsigned b0lo, unsigned b0hi) {
  unsigned long long local = 0;
  char *buf = (char *)malloc(k);
  unsigned char *w = (unsigned char *)buf;
  for (unsigned b0 = b0lo; b0 < b0hi; ++b0) {
    w[0] = b0;
    if (k == 1) { Cell r = RealDecode(buf, buf + 1); ++local; if (!(r == one[b0])) Report(w, 1, r, one[b0]); continue; }
    for (unsigned b1 = 0; b1 < 256; ++b1) {
      w[1] = b1;
      unsigned idx = b0 * 256 + b1;
      if (k == 2) { Cell r = RealDecode(buf, buf + 2); ++local; if (!(r == row2[idx])) Report(w, 2, r, row2[idx]); continue; }
      for (unsigned b2 = 0; b2 < 256; ++b2) {
        w[2] = b2;
        if (k == 3) { Cell r = RealDecode(buf, buf + 3); ++local; Cell e = Compose3(row3[idx], b2); if (!(r == e)) Report(w, 3, r, e); continue; }
        for (unsigned b3 = 0; b3 < 256; ++b3) {
          w[3] = b3;
          Cell r = RealDecode(buf, buf + 4); ++local; Cell e = Compose4(row4[idx], b2, b3); if (!(r == e)) Report(w, 4, r, e);
        }
      }
    }
  }
  free(buf);
  std::lock_guard<std::mutex> g(mu);
  n_windows += local;
}

static int Sweep(const char *tablefile, unsigned k, unsigned threads, unsigned b0lo, unsigned b0hi) {
  std::ifstream in(tablefile);
  std::string line;
  // first line: W1 row (256 cells); then 256 lines P b0
  if (!std::getline(in, line)) { std::cout << "SWEEP-ERROR no table\n"; return 2; }
  { std::vector<std::string> t = hx::split_ws(line); if (t.size() != 256) { std::cout << "SWEEP-ERROR W1 row\n"; return 2; }
    for (unsigned i = 0; i < 256; ++i) one[i] = ParseCell(t[i]); }
  for (unsigned b0 = 0; b0 < 256; ++b0) {
    if (!std::getline(in, line)) { std::cout << "SWEEP-ERROR short table\n"; return 2; }
    std::vector<std::string> t = hx::split_ws(line);
    if (t.size() != 256) { std::cout << "SWEEP-ERROR P row\n"; return 2; }
    for (unsigned b1 = 0; b1 < 256; ++b1) {
      size_t a = t[b1].find(';'), b = t[b1].find(';', a + 1);
      row2[b0 * 256 + b1] = ParseCell(t[b1].substr(0, a));
      row3[b0 * 256 + b1] = ParseCell(t[b1].substr(a + 1, b - a - 1));
      row4[b0 * 256 + b1] = ParseCell(t[b1].substr(b + 1));
    }
  }
  std::vector<std::thread> pool;
  // interleave lead bytes across threads: the expensive (throwing) leads are 0x80..0xFF
  std::vector<std::vector<unsigned> > mine(threads);
  for (unsigned b0 = b0lo; b0 < b0hi; ++b0) mine[b0 % threads].push_back(b0);
  for (unsigned t = 0; t < threads; ++t) {
    pool.push_back(std::thread([k, t, &mine]() { for (unsigned b0 : mine[t]) SweepRange(k, b0, b0 + 1); }));
  }
  for (auto &t : pool) t.join();
  std::cout << "SWEEP k=" << k << " windows=" << n_windows << " mismatches=" << n_mismatch << "\n";
  for (auto &r : reports) std::cout << r << "\n";
  return 0;
}

int main(int argc, char **argv) {
  if (argc >= 5 && !strcmp(argv[1], "SWEEP")) {
    unsigned lo = argc >= 7 ? atoi(argv[5]) : 0, hi = argc >= 7 ? atoi(argv[6]) : 256;
    return Sweep(argv[2], atoi(argv[3]), atoi(argv[4]), lo, hi);
  }
  std::string line;
  while (std::getline(std::cin, line)) {
    std::vector<std::string> t = hx::split_ws(line);
    if (t.empty()) { std::cout << "?\n"; continue; }
    std::string raw = t.size() > 1 ? hx::unhex(t[1]) : std::string();
    // exact-size heap copy: an over-read is visible to ASan
    char *buf = (char *)malloc(raw.size() ? raw.size() : 1);
    memcpy(buf, raw.data(), raw.size());
    util::StringPiece arg(buf, raw.size());
    if (t[0] == "C") {
      util::DecodeUTF8Iterator none;   // value-initialised iterator reports kUnicodeError
      std::cout << "kUnicodeError=" << util::kUnicodeError << " default_iterator=" << (uint32_t)*none << "\n";
    } else if (t[0] == "D") {
      if (raw.empty()) { std::cout << "BAD\n"; free(buf); continue; }  // DecodeUTF8 presumes end > begin
      Cell c = RealDecode(buf, buf + raw.size());
      if (c.ok) std::cout << "OK " << c.cp << " " << c.len << "\n"; else std::cout << "BAD\n";
    } else if (t[0] == "U") {
      std::cout << (util::IsUTF8(arg) ? "T" : "F") << "\n";
    } else if (t[0] == "I") {
      std::string items;
      bool ok = true;
      try {
        for (util::DecodeUTF8Iterator it(arg); it; ++it) {
          if (!items.empty()) items += " ";
          items += std::to_string((uint32_t)*it) + ":" + std::to_string(it.UTF8().size());
        }
      } catch (const util::NotUTF8Exception &) { ok = false; }
      std::cout << (ok ? "OK" : "BAD") << (items.empty() ? "" : " ") << items << "\n";
    } else {
      std::cout << "?\n";
    }
    free(buf);
  }
  return 0;
}
