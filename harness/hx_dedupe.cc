// Correspondence harness for preprocess/dedupe_main.cc (property C01).
//   K <fields|-> <delim hex> <hexline>...   the 64-bit key the real code computes for each line
//                                           (one fresh Dedupe/FieldDedupe object per line; the key is read
//                                           back from its table; 0 when the table stayed empty)
//   D <fields|-> <delim hex> <hexline>...   keep flags of ONE real Dedupe/FieldDedupe object over the lines
// '-' stands for an empty line.
#include "hx_common.hh"
// every header dedupe_main.cc pulls in, first, so that the access override below only touches its own classes
#include "preprocess/fields.hh"
#include "preprocess/parallel.hh"
#include "util/murmur_hash.hh"
#include "util/probing_hash_table.hh"
#include "util/scoped.hh"
#include <boost/program_options.hpp>
#include <boost/program_options/positional_options.hpp>
#include <iostream>
#include <stdint.h>
#define private public
#define protected public
#define main dedupe_main_renamed
#include "preprocess/dedupe_main.cc"
#undef main
#undef private
#undef protected

namespace {
using namespace preprocess;

std::string Undash(const std::string &h) { return h == "-" ? std::string() : hx::unhex(h); }

template <class D> uint64_t KeyIn(const D &d) {
  uint64_t key = 0;
  unsigned found = 0;
  for (const Entry *i = d.table_.RawBegin(); i != d.table_.RawEnd(); ++i) {
    if (i->key) { key = i->key; ++found; }
  }
  return found <= 1 ? key : 0xffffffffffffffffULL;
}

void Run(const std::vector<std::string> &t) {
  bool keys = t[0] == "K";
  Options options;
  bool whole = t[1] == "-";
  if (!whole) {
    ParseFields(t[1].c_str(), options.key_fields);
    DefragmentFields(options.key_fields);
  }
  std::string delim = hx::unhex(t[2]);
  options.delim = delim.empty() ? '\t' : delim[0];
  // same decision as main()
  if (!whole && options.key_fields.size() == 1 && options.key_fields[0].begin == 0 && options.key_fields[0].end == FieldRange::kInfiniteEnd) whole = true;
  std::string out;
  Dedupe plain;
  FieldDedupe fielded(options);
  for (size_t i = 3; i < t.size(); ++i) {
    std::string line = Undash(t[i]);
    util::StringPiece piece(line.data(), line.size());
    if (keys) {
      uint64_t k;
      if (whole) { Dedupe d; d(piece); k = KeyIn(d); } else { FieldDedupe d(options); d(piece); k = KeyIn(d); }
      if (!out.empty()) out += " ";
      out += std::to_string(k);
    } else {
      bool keep = whole ? plain(piece) : fielded(piece);
      out += keep ? "1" : "0";
    }
  }
  std::cout << (out.empty() ? "-" : out) << "\n";
}
}  // namespace

int main() {
  std::string line;
  while (std::getline(std::cin, line)) {
    std::vector<std::string> t = hx::split_ws(line);
    if (t.size() >= 3 && (t[0] == "K" || t[0] == "D")) {
      try { Run(t); } catch (const std::exception &e) { std::cout << "EXC " << e.what() << "\n"; }
    } else {
      std::cout << "?\n";
    }
    std::cout.flush();
  }
  return 0;
}
