// Correspondence harness for preprocess/fields.hh / fields.cc: same line protocol as ocaml/C10_driver.ml.
#include "hx_common.hh"
#include "preprocess/fields.hh"
#include "util/exception.hh"
#include <cstring>
#include <cstdlib>

using preprocess::FieldRange;

static std::string Arg(const std::string &h) { return h == "-" ? std::string() : hx::unhex(h); }
static std::string Hx(util::StringPiece p) { return p.size() ? hx::hex(p.data(), p.size()) : std::string("-"); }

struct Recorder {
  std::vector<std::string> pieces;
  const char *lo, *hi;
  bool outside;
  Recorder(const char *l, const char *h) : lo(l), hi(h), outside(false) {}
  void Check(util::StringPiece p) { if (p.data() < lo || p.data() + p.size() > hi || p.size() > (size_t)(hi - lo)) outside = true; }
  void operator()(util::StringPiece p) { Check(p); pieces.push_back(outside ? std::string("OUTSIDE") : Hx(p)); }
};
struct BoolRecorder : Recorder {
  BoolRecorder(const char *l, const char *h) : Recorder(l, h) {}
  bool operator()(util::StringPiece p) { Recorder::operator()(p); return true; }
};

static void ShowRanges(const std::vector<FieldRange> &r) {
  std::cout << "OK";
  for (const FieldRange &f : r) {
    std::cout << " " << f.begin << ":";
    if (f.end == FieldRange::kInfiniteEnd) std::cout << "inf"; else std::cout << f.end;
  }
  std::cout << "\n";
}

int main() {
  std::string line;
  while (std::getline(std::cin, line)) {
    std::vector<std::string> t = hx::split_ws(line);
    if (t.empty()) { std::cout << "?\n"; continue; }
    try {
      if (t[0] == "C") {
        std::cout << "kInfiniteEnd=" << FieldRange::kInfiniteEnd << " sizeof_unsigned_long=" << sizeof(unsigned long) << "\n";
      } else if (t[0] == "Q" && t.size() == 2) {
        std::vector<FieldRange> r;
        preprocess::ParseFields(Arg(t[1]).c_str(), r);
        ShowRanges(r);
      } else if (t[0] == "P" && t.size() == 2) {
        std::vector<FieldRange> r;
        preprocess::ParseFields(Arg(t[1]).c_str(), r);
        preprocess::DefragmentFields(r);
        ShowRanges(r);
      } else if ((t[0] == "R" || t[0] == "V") && t.size() == 4) {
        std::vector<FieldRange> r;
        preprocess::ParseFields(Arg(t[2]).c_str(), r);
        preprocess::DefragmentFields(r);
        std::string raw = Arg(t[3]);
        // exact-size heap copy: reads outside the line are visible to ASan
        char *buf = (char *)malloc(raw.size() ? raw.size() : 1);
        memcpy(buf, raw.data(), raw.size());
        char delim = (char)atoi(t[1].c_str());
        std::vector<std::string> pieces;
        if (t[0] == "R") {
          Recorder rec(buf, buf + raw.size());
          preprocess::RangeFields(util::StringPiece(buf, raw.size()), r, delim, rec);
          pieces = rec.pieces;
        } else {
          BoolRecorder rec(buf, buf + raw.size());
          preprocess::IndividualFields(util::StringPiece(buf, raw.size()), r, delim, rec);
          pieces = rec.pieces;
        }
        std::cout << "OK";
        for (const std::string &p : pieces) std::cout << " " << p;
        std::cout << "\n";
        free(buf);
      } else if (t[0] == "K" && t.size() == 5) {
        std::vector<FieldRange> r;
        preprocess::ParseFields(Arg(t[3]).c_str(), r);
        preprocess::DefragmentFields(r);
        std::string raw = Arg(t[4]);
        preprocess::HashCallback cb(strtoull(t[1].c_str(), 0, 10));
        preprocess::RangeFields(util::StringPiece(raw.data(), raw.size()), r, (char)atoi(t[2].c_str()), cb);
        std::cout << cb.Hash() << "\n";
      } else {
        std::cout << "?\n";
      }
    } catch (util::Exception &e) {
      std::cout << "ERR\n";
    }
  }
  return 0;
}
