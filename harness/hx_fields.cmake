set(HX_LIBS fields)
