set(HX_LIBS fields base64)
