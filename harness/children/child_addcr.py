#!/usr/bin/env python3
# answers every line L with L followed by a carriage return (line-preserving; the CR is part of the answer)
import sys
o = sys.stdout.buffer
for l in sys.stdin.buffer:
    if l.endswith(b"\n"):
        l = l[:-1]
    o.write(l + b"\r\n")
    o.flush()
