#!/usr/bin/env python3
# bracketing child: answers line L with [L]  (shows piece boundaries in the tool's output)
import sys
o = sys.stdout.buffer
for l in sys.stdin.buffer:
    if l.endswith(b"\n"):
        l = l[:-1]
    o.write(b"[" + l + b"]\n")
    o.flush()
