/* Scripted child for the wrapper checks (C11): a line-in/line-out identity
 * filter that terminates in a prescribed way at a prescribed point.
 *
 *   vchild K TERM [drain|nodrain] [extra]
 *     K      number of input lines to answer (echo, flushed line by line); -1 = all, until EOF on stdin
 *     TERM   exit:C   -> _exit(C)
 *            sig:S    -> kill(getpid(), S) with the default disposition (core dumps disabled)
 *     drain  after the K-th answer keep reading stdin to EOF (answering nothing more) and only then terminate;
 *     nodrain (default) terminate right after the K-th answer (stdin may still hold unread lines: the
 *            wrapper's feeder then sees EPIPE/SIGPIPE)
 *     extra  N: after the K answers emit N additional lines nobody asked for (default 0)
 * With K = -1 the child always reads to EOF first ("after answering everything").
 */
#define _GNU_SOURCE
#include <signal.h>
#include <stdio.h>
#include <stdlib.h>
#include <string.h>
#include <sys/resource.h>
#include <unistd.h>

static void terminate(const char *term) {
  if (!strncmp(term, "exit:", 5)) _exit(atoi(term + 5));
  if (!strncmp(term, "sig:", 4)) {
    int s = atoi(term + 4);
    struct rlimit rl = {0, 0};
    setrlimit(RLIMIT_CORE, &rl);
    signal(s, SIG_DFL);
    sigset_t set;
    sigemptyset(&set);
    sigaddset(&set, s);
    sigprocmask(SIG_UNBLOCK, &set, NULL);
    kill(getpid(), s);
    /* a signal whose default action is "ignore"/"stop" does not end us: report a distinct code */
    _exit(99);
  }
  _exit(98);
}

static void put(const char *p, size_t n) {
  while (n) {
    ssize_t w = write(1, p, n);
    if (w <= 0) _exit(97);
    p += w;
    n -= (size_t)w;
  }
}

int main(int argc, char **argv) {
  if (argc < 3) return 96;
  long k = atol(argv[1]);
  const char *term = argv[2];
  int drain = argc > 3 && !strcmp(argv[3], "drain");
  long extra = argc > 4 ? atol(argv[4]) : 0;
  static char buf[1 << 16];
  static char line[1 << 20];
  size_t ll = 0;
  long answered = 0;
  if (k == 0 && !drain) terminate(term);
  for (;;) {
    ssize_t r = read(0, buf, sizeof buf);
    if (r <= 0) break;
    for (ssize_t i = 0; i < r; ++i) {
      if (ll < sizeof line) line[ll++] = buf[i];
      if (buf[i] == '\n') {
        if (k < 0 || answered < k) {
          put(line, ll);
          ++answered;
          if (k >= 0 && answered == k) {
            for (long e = 0; e < extra; ++e) put("extra\n", 6);
            if (!drain) terminate(term);
          }
        }
        ll = 0;
      }
    }
  }
  if (k < 0) for (long e = 0; e < extra; ++e) put("extra\n", 6);
  terminate(term);
  return 0;
}
