#!/usr/bin/env python3
# a child WITH MEMORY: answers the i-th line it reads (i = 1, 2, ...) with "<i>:<line>" -- one line per line
import sys
o = sys.stdout.buffer
for i, l in enumerate(sys.stdin.buffer, 1):
    if l.endswith(b"\n"):
        l = l[:-1]
    o.write(b"%d:" % i + l + b"\n")
    o.flush()
