#!/usr/bin/env python3
# upper-casing child (ASCII letters only, so it commutes with any split on code point boundaries)
import sys
o = sys.stdout.buffer
T = bytes(c - 32 if 97 <= c <= 122 else c for c in range(256))
for l in sys.stdin.buffer:
    o.write((l if l.endswith(b"\n") else l + b"\n").translate(T))
    o.flush()
