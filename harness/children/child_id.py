#!/usr/bin/env python3
# identity child: answers every line with the same bytes (line-buffered)
import sys
o = sys.stdout.buffer
for l in sys.stdin.buffer:
    o.write(l if l.endswith(b"\n") else l + b"\n")
    o.flush()
