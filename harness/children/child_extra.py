#!/usr/bin/env python3
# NOT line-preserving: echoes everything and adds one more line at the end
import sys
o = sys.stdout.buffer
for l in sys.stdin.buffer:
    o.write(l if l.endswith(b"\n") else l + b"\n")
    o.flush()
o.write(b"X\n")
o.flush()
