#!/usr/bin/env python3
# identity child that also appends everything it reads to the file named by argv[1]
import sys
o = sys.stdout.buffer
with open(sys.argv[1], "ab") as log:
    for l in sys.stdin.buffer:
        log.write(l)
        log.flush()
        o.write(l if l.endswith(b"\n") else l + b"\n")
        o.flush()
