#!/usr/bin/env python3
# NOT line-preserving: swallows the second line it reads
import sys
o = sys.stdout.buffer
for i, l in enumerate(sys.stdin.buffer):
    if i != 1:
        o.write(l if l.endswith(b"\n") else l + b"\n")
        o.flush()
