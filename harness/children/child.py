#!/usr/bin/env python3
"""Scripted child processes for the wrapper checks (C04/C05).  One answer line per input line.

  child.py MODE [--log FILE] [--exit N]
    eager      answer each line as soon as it is complete, flush after every line
    block:K    hold answers, write them out in blocks of K lines (and at end of input)
    readall    read all of stdin first, then answer everything
    echo       copy bytes as they arrive (like cat): partial lines are echoed
    early      answer "<early>" to every line as soon as its first byte arrives
    stdio      default stdio buffering of a pipe (like `tr`/`sed` without -u)
  MODE+pre=HEX puts the given bytes in front of every answer.
  MODE+num makes the child stateful: the answer to its n-th line (from 0) is "n:<" + L.upper() + ">".
  The answer to line L is "<" + L.upper() + ">" for eager/block/readall/stdio and L itself for echo.
  --log FILE   append every line received on stdin to FILE (what the child was given)
  --exit N     exit status after end of input
"""
import os
import sys


CR_TAIL = False


FIELD3 = False


PREFIX = b""      # "+pre=HEX": every answer starts with these bytes


NUMBER = None     # "+num": a STATEFUL child; the answer to its n-th line (from 0) starts with "n:"


def answer(line):
    global NUMBER
    if NUMBER is not None:
        NUMBER += 1
        return b"%d:<" % (NUMBER - 1) + line.upper() + b">"
    if FIELD3:   # print the third tab-separated field (empty if absent or empty)
        f = line.split(b"\t")
        return f[2] if len(f) > 2 else b""
    return PREFIX + b"<" + line.upper() + b">" + (b"\r" if CR_TAIL else b"")


def main():
    args = sys.argv[1:]
    mode = args[0] if args else "eager"
    global CR_TAIL, FIELD3, NUMBER, PREFIX
    if "+pre=" in mode:
        mode, hx = mode.split("+pre=")
        PREFIX = bytes.fromhex(hx)
    if mode.endswith("+num"):     # answers are numbered: depends on how many lines the child has seen
        NUMBER = 0
        mode = mode[:-4]
    if mode.endswith("+f3"):      # answers = third tab-separated field of the line
        FIELD3 = True
        mode = mode[:-3]
    if mode.endswith("+cr"):      # answers end in a carriage return (before the newline)
        CR_TAIL = True
        mode = mode[:-3]
    log = None
    code = 0
    i = 1
    while i < len(args):
        if args[i] == "--log":
            log = open(args[i + 1], "ab", buffering=0)
            i += 2
        elif args[i] == "--exit":
            code = int(args[i + 1])
            i += 2
        else:
            i += 1
    fin = 0
    fout = 1
    if mode == "early":
        # exactly one answer line per input line, written as soon as the FIRST byte of the line arrives
        at_start = True
        while True:
            data = os.read(fin, 65536)
            if not data:
                break
            if log:
                log.write(data)
            out = b""
            for i in range(len(data)):
                if at_start:
                    out += b"<early>\n"
                at_start = data[i:i + 1] == b"\n"
            off = 0
            while off < len(out):
                off += os.write(fout, out[off:])
        sys.exit(code)
    if mode == "echo":
        while True:
            data = os.read(fin, 65536)
            if not data:
                break
            if log:
                log.write(data)
            off = 0
            while off < len(data):
                off += os.write(fout, data[off:])
        sys.exit(code)
    held = []
    k = None
    if mode.startswith("block:"):
        k = int(mode.split(":")[1])
    pending = b""

    def flush_out(lines):
        data = b"".join(l + b"\n" for l in lines)
        off = 0
        while off < len(data):
            off += os.write(fout, data[off:])

    stdio_buf = []
    stdio_len = 0
    while True:
        data = os.read(fin, 65536)
        if not data:
            break
        pending += data
        while True:
            nl = pending.find(b"\n")
            if nl < 0:
                break
            line, pending = pending[:nl], pending[nl + 1:]
            if log:
                log.write(line + b"\n")
            a = answer(line)
            if mode == "eager":
                flush_out([a])
            elif k is not None:
                held.append(a)
                if len(held) >= k:
                    flush_out(held)
                    held = []
            elif mode == "stdio":
                stdio_buf.append(a)
                stdio_len += len(a) + 1
                if stdio_len >= 4096:
                    flush_out(stdio_buf)
                    stdio_buf, stdio_len = [], 0
            else:
                held.append(a)
    if pending:
        if log:
            log.write(pending)
        held.append(answer(pending))
    flush_out(stdio_buf + held)
    sys.exit(code)


if __name__ == "__main__":
    main()
