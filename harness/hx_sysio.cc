// Correspondence harness for the transfer loops of util/file.cc, BufferedStream<FileWriter>
// and ReadCompressed (property C03): same line protocol as ocaml/C03_driver.ml.
// Must be run with LD_PRELOAD=libvfio.so: the outcome script of each case is handed to the
// interposer through vfio_control(), the per-syscall log comes back through vfio_log().
//   PR <amount> <srchex|-> <script|->        PartialRead
//   RE <amount> <srchex|-> <script|->        ReadOrEOF
//   RT <amount> <srchex|-> <script|->        ReadOrThrow
//   WT <datahex|-> <script|->                WriteOrThrow
//   EP <size> <off> <filehex|-> <script|->   ErsatzPRead
//   EW <datahex|-> <off> <filehex|-> <script|->  ErsatzPWrite
//   BS <len,len,...|-> <script|->            FileStream (BufferedStream<FileWriter>): writes of the given lengths, destructor flush
//   TB <len,len,...|-> <script|->            ThreadedBufferedStream<FileWriter>: writes of the given lengths, destructor (spill, poison, join)
//   RC <amount> <srchex|-> <script|->        ReadCompressed(fd).ReadOrEOF(amount) on uncompressed data
// answer:  OK <resulthex|-> trace=<req:ret,...> sink=<hex|->     or   FAIL <kind> trace=... sink=...
#ifndef _GNU_SOURCE
#define _GNU_SOURCE
#endif
#include "hx_common.hh"
#include "util/file.hh"
#include "util/file_stream.hh"
#include "util/threaded_buffered_stream.hh"
#include "util/compress.hh"
#include "util/exception.hh"

#include <cerrno>
#include <cstdlib>
#include <cstring>
#include <fcntl.h>
#include <sstream>
#include <sys/mman.h>
#include <unistd.h>

extern "C" void vfio_control(const char *script, const char *fds, const char *ops) __attribute__((weak));
extern "C" const char *vfio_log(void) __attribute__((weak));

namespace {
std::string Unhex(const std::string &h) { return h == "-" ? std::string() : hx::unhex(h); }
std::string Hex(const std::string &s) { return s.empty() ? std::string("-") : hx::hex(s); }

int MemFile(const std::string &content) {
  int fd = memfd_create("hx_sysio", 0);
  if (fd < 0) { perror("memfd_create"); exit(2); }
  size_t done = 0;
  while (done < content.size()) {
    ssize_t w = pwrite(fd, content.data() + done, content.size() - done, done);
    if (w <= 0) { perror("pwrite"); exit(2); }
    done += w;
  }
  lseek(fd, 0, SEEK_SET);
  return fd;
}

std::string Slurp(int fd) {
  std::string out;
  char buf[65536];
  off_t off = 0;
  while (true) {
    ssize_t r = pread(fd, buf, sizeof(buf), off);
    if (r <= 0) break;
    out.append(buf, r);
    off += r;
  }
  return out;
}

// "<op> <fd> <req> <ret>\n"... -> "req:ret,req:ret" for our descriptor
std::string Trace(int fd) {
  std::string out;
  std::istringstream is(vfio_log());
  std::string op;
  long f, req, ret;
  while (is >> op >> f >> req >> ret) {
    if (f != fd) continue;
    if (!out.empty()) out.push_back(',');
    out += std::to_string(req) + ":" + std::to_string(ret);
  }
  return out;
}

void Arm(const std::string &script, int fd) {
  std::string fds = std::to_string(fd);
  vfio_control(script == "-" ? "" : script.c_str(), fds.c_str(), "rwp");
}
void Disarm() { vfio_control("", "1000", "rwp"); }

std::string Data(size_t n, size_t salt) {
  std::string s(n, 0);
  for (size_t i = 0; i < n; ++i) s[i] = char((i * 7 + salt * 13 + (i >> 8)) % 251);
  return s;
}

std::string RunCase(const std::vector<std::string> &t) {
  const std::string &op = t[0];
  std::string result, kind;
  int fd = -1;
  std::string trace, sink;
  bool sink_used = false;
  try {
    if ((op == "PR" || op == "RE" || op == "RT" || op == "RC") && t.size() == 4) {
      size_t amount = strtoul(t[1].c_str(), NULL, 10);
      fd = MemFile(Unhex(t[2]));
      std::string buf(amount, 0);
      if (op == "RC") {
        Arm(t[3], fd);
        int owned = fd;
        try {
          util::ReadCompressed rc(owned);   // takes ownership
          size_t got = rc.ReadOrEOF(&buf[0], amount);
          result = buf.substr(0, got);
          trace = Trace(fd);
        } catch (...) { trace = Trace(fd); Disarm(); fd = -1; throw; }
        Disarm();
        fd = -1;
      } else {
        Arm(t[3], fd);
        try {
          if (op == "PR") { size_t got = util::PartialRead(fd, &buf[0], amount); result = buf.substr(0, got); }
          else if (op == "RE") { size_t got = util::ReadOrEOF(fd, &buf[0], amount); result = buf.substr(0, got); }
          else { util::ReadOrThrow(fd, &buf[0], amount); result = buf; }
        } catch (...) { trace = Trace(fd); Disarm(); throw; }
        trace = Trace(fd);
        Disarm();
      }
    } else if (op == "WT" && t.size() == 3) {
      std::string data = Unhex(t[1]);
      fd = MemFile("");
      sink_used = true;
      Arm(t[2], fd);
      try { util::WriteOrThrow(fd, data.data(), data.size()); } catch (...) { trace = Trace(fd); Disarm(); sink = Slurp(fd); throw; }
      trace = Trace(fd);
      Disarm();
      sink = Slurp(fd);
    } else if (op == "EP" && t.size() == 5) {
      size_t size = strtoul(t[1].c_str(), NULL, 10);
      uint64_t off = strtoull(t[2].c_str(), NULL, 10);
      fd = MemFile(Unhex(t[3]));
      std::string buf(size, 0);
      Arm(t[4], fd);
      try { util::ErsatzPRead(fd, &buf[0], size, off); } catch (...) { trace = Trace(fd); Disarm(); throw; }
      trace = Trace(fd);
      Disarm();
      result = buf;
    } else if (op == "EW" && t.size() == 5) {
      std::string data = Unhex(t[1]);
      uint64_t off = strtoull(t[2].c_str(), NULL, 10);
      fd = MemFile(Unhex(t[3]));
      Arm(t[4], fd);
      try { util::ErsatzPWrite(fd, data.data(), data.size(), off); } catch (...) { trace = Trace(fd); Disarm(); throw; }
      trace = Trace(fd);
      Disarm();
      result = Slurp(fd);
    } else if (op == "TB" && t.size() == 3) {
      fd = MemFile("");
      sink_used = true;
      std::vector<size_t> lens;
      if (t[1] != "-") {
        std::istringstream is(t[1]);
        std::string x;
        while (std::getline(is, x, ',')) lens.push_back(strtoul(x.c_str(), NULL, 10));
      }
      int keep = dup(fd);
      Arm(t[2], fd);
      {
        util::ThreadedBufferedStream<util::FileWriter> out(fd);
        for (size_t i = 0; i < lens.size(); ++i) {
          std::string d = Data(lens[i], i);
          out.write(d.data(), d.size());
        }
      }
      trace = Trace(fd);
      Disarm();
      sink = Slurp(keep);
      close(keep);
      fd = -1;
    } else if (op == "BS" && t.size() == 3) {
      fd = MemFile("");
      sink_used = true;
      std::vector<size_t> lens;
      if (t[1] != "-") {
        std::istringstream is(t[1]);
        std::string x;
        while (std::getline(is, x, ',')) lens.push_back(strtoul(x.c_str(), NULL, 10));
      }
      int keep = dup(fd);   // FileStream closes its descriptor
      Arm(t[2], fd);
      try {
        util::FileStream out(fd);
        for (size_t i = 0; i < lens.size(); ++i) {
          std::string d = Data(lens[i], i);
          out.write(d.data(), d.size());
        }
      } catch (...) { trace = Trace(fd); Disarm(); sink = Slurp(keep); close(keep); fd = -1; throw; }
      trace = Trace(fd);
      Disarm();
      sink = Slurp(keep);
      close(keep);
      fd = -1;
    } else {
      return "?";
    }
    kind = "OK " + Hex(result);
  } catch (const util::EndOfFileException &e) {
    kind = "FAIL eof";
  } catch (const util::FDException &e) {
    kind = "FAIL errno";
  } catch (const util::Exception &e) {
    kind = std::string("FAIL exception");
  }
  if (fd >= 0) close(fd);
  return kind + " trace=" + trace + " sink=" + (sink_used ? Hex(sink) : std::string("-"));
}
}  // namespace

int main() {
  if (!vfio_control || !vfio_log) {
    std::cerr << "hx_sysio must run with LD_PRELOAD=libvfio.so\n";
    return 2;
  }
  Disarm();
  std::string line;
  while (std::getline(std::cin, line)) {
    std::vector<std::string> t = hx::split_ws(line);
    if (t.empty()) { std::cout << "?\n"; continue; }
    std::cout << RunCase(t) << "\n";
  }
  return 0;
}
