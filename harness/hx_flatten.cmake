set(HX_LIBS preprocess_icu ${ICU_LIBRARIES})
