// Harness for preprocess/warc.cc (C17): the real WARCReader on a pipe that
// delivers the stream in exactly the given fragments (see hx_compress.cc).
//   R <streamhex|-> <frag,frag,...|->
//     -> OK <rechex,rechex,...|->            every record Read() returned, then clean end of file
//        ERR <EOF|FMT|LEN|CE|EX> <rechex,...|->   records returned before the exception
//   K -> constants (none exported by the code)
#include "hx_common.hh"
#include "preprocess/warc.hh"
#include "util/compress.hh"
#include "util/exception.hh"
#include "util/file.hh"

#include <atomic>
#include <csignal>
#include <cstdlib>
#include <new>
#include <stdexcept>
#include <thread>

#include <sched.h>
#include <sys/ioctl.h>
#include <unistd.h>

namespace {

std::vector<size_t> parse_sizes(const std::string &s) {
  std::vector<size_t> out;
  if (s == "-") return out;
  size_t cur = 0;
  bool have = false;
  for (char c : s) {
    if (c == ',') {
      if (have) out.push_back(cur);
      cur = 0;
      have = false;
    } else {
      cur = cur * 10 + size_t(c - '0');
      have = true;
    }
  }
  if (have) out.push_back(cur);
  return out;
}

std::atomic<bool> g_stop(false);

void Feeder(int fd, std::string data, std::vector<size_t> frags) {
  size_t pos = 0;
  size_t fi = 0;
  while (pos < data.size()) {
    size_t n = fi < frags.size() ? frags[fi] : data.size() - pos;
    ++fi;
    if (n == 0) continue;
    if (n > data.size() - pos) n = data.size() - pos;
    for (;;) {
      int pending = 0;
      if (ioctl(fd, FIONREAD, &pending) != 0 || pending == 0) break;
      if (g_stop.load()) {
        close(fd);
        return;
      }
      sched_yield();
    }
    size_t done = 0;
    while (done < n) {
      ssize_t w = write(fd, data.data() + pos + done, n - done);
      if (w <= 0) {
        close(fd);
        return;
      }
      done += size_t(w);
    }
    pos += n;
  }
  close(fd);
}

void OnAlarm(int) {
  static const char msg[] = "HANG\n";
  std::cout.flush();
  ssize_t ignored = write(1, msg, sizeof msg - 1);
  (void)ignored;
  _exit(3);
}

}  // namespace

int main() {
  signal(SIGPIPE, SIG_IGN);
  signal(SIGALRM, OnAlarm);
  const char *to = getenv("HX_CASE_TIMEOUT");
  unsigned timeout = to ? unsigned(atoi(to)) : 10;
  std::string line;
  while (std::getline(std::cin, line)) {
    std::vector<std::string> t = hx::split_ws(line);
    if (t.empty() || t[0] != "R") {
      std::cout << "?\n";
      continue;
    }
    alarm(timeout);
    std::string stream = t.size() > 1 && t[1] != "-" ? hx::unhex(t[1]) : std::string();
    std::vector<size_t> frags = parse_sizes(t.size() > 2 ? t[2] : "-");
    int fds[2];
    if (pipe(fds)) abort();
    g_stop.store(false);
    std::thread feeder(Feeder, fds[1], stream, frags);
    std::vector<std::string> recs;
    const char *err = NULL;
    {
      try {
        preprocess::WARCReader reader(fds[0]);
        std::string rec;
        while (reader.Read(rec)) recs.push_back(rec);
      } catch (const util::EndOfFileException &e) {
        err = "EOF";
      } catch (const util::CompressedException &e) {
        err = "CE";
      } catch (const util::Exception &e) {
        err = "FMT";
      } catch (const std::length_error &e) {
        err = "LEN";
      } catch (const std::bad_alloc &e) {
        err = "LEN";
      } catch (const std::exception &e) {
        err = "EX";
      }
    }
    g_stop.store(true);
    feeder.join();
    std::cout << (err ? std::string("ERR ") + err : std::string("OK")) << ' ';
    if (recs.empty()) std::cout << '-';
    for (size_t i = 0; i < recs.size(); ++i) {
      if (i) std::cout << ',';
      std::cout << (recs[i].empty() ? std::string("e") : hx::hex(recs[i]));
    }
    std::cout << "\n";
    alarm(0);
    std::cout.flush();
  }
  return 0;
}
